#!/usr/bin/env python3
"""mk_runtime_map.py <GOROOT/src/runtime/map.go> <out>: writes a copy of the runtime's map.go in which the random
start position drawn by mapiterinit can be supplied by a hook variable (set by the /verif harness through a
linkname). With the hook unset the behaviour is the stock one."""
import sys
src, out = sys.argv[1], sys.argv[2]
s = open(src).read()
needle = "\tr := uintptr(rand())\n\tit.startBucket = r & bucketMask(h.B)"
assert s.count(needle) == 1, "mapiterinit layout changed"
s = s.replace(needle, "\tr := uintptr(rand())\n\tif verifMapIterHook != nil {\n\t\tr = uintptr(verifMapIterHook())\n\t}\n\tit.startBucket = r & bucketMask(h.B)")
s += '''

// verifMapIterHook, when set, supplies the value mapiterinit uses instead of a random number to pick the bucket
// and in-bucket offset an iteration starts at (harness seam of /verif, see DESIGN.md 2.4).
//
//go:linkname verifMapIterHook
var verifMapIterHook func() uint64
'''
open(out, "w").write(s)
