package world

import (
	"fmt"
	"math/big"
	"sort"
	"strings"

	"github.com/ethereum/go-ethereum/common"
	"github.com/ethereum/go-ethereum/core/state"
)

// TDB wraps go-ethereum's StateDB and records every address and storage slot mutated through the StateDB
// interface. Both EVMs only ever see the interface, so the recorded set is complete, and Digest (the state of
// exactly those accounts and slots) is a sound replacement for a state root over equal pre-states: two
// executions from equal pre-states with equal touched sets and equal digests have equal post-states.
type TDB struct {
	*state.StateDB
	addrs map[common.Address]string                      // address -> rendering of the account before its first mutation
	slots map[common.Address]map[common.Hash]common.Hash // slot -> value before its first write
	delEmpty bool
	// counters for C20
	Reads, Writes uint64
	// ReadLimit > 0: a state read beyond this count panics with WorkSentinel (turns unbounded loops into a verdict)
	ReadLimit uint64
	// dirtyLog: addresses made dirty through the interface in call order (a zero AddBalance only when the account is
	// empty at that moment, as in the StateDB), cut back by RevertToSnapshot: the accounts whose dirtiness survives
	// are the ones the end-of-transaction finalisation looks at
	dirtyLog  []common.Address
	snapMarks map[int]int
}

// Snapshot / RevertToSnapshot keep the dirty log in step with the StateDB's journal.
func (t *TDB) Snapshot() int {
	id := t.StateDB.Snapshot()
	if t.snapMarks == nil {
		t.snapMarks = map[int]int{}
	}
	t.snapMarks[id] = len(t.dirtyLog)
	return id
}

func (t *TDB) RevertToSnapshot(id int) {
	if n, ok := t.snapMarks[id]; ok && n <= len(t.dirtyLog) {
		t.dirtyLog = t.dirtyLog[:n]
	}
	t.StateDB.RevertToSnapshot(id)
}

func (t *TDB) dirty(a common.Address) { t.dirtyLog = append(t.dirtyLog, a) }

// ExistsFinalised tells whether a would still be an account after Finalise(deleteEmpty=true): it exists, did not
// self-destruct, and is not an empty account whose dirtiness survived.
func (t *TDB) ExistsFinalised(a common.Address) bool {
	if !t.StateDB.Exist(a) || t.StateDB.HasSuicided(a) {
		return false
	}
	if !t.StateDB.Empty(a) {
		return true
	}
	for _, d := range t.dirtyLog {
		if d == a {
			return false
		}
	}
	return true
}

// WorkSentinel is the panic value raised by the counting StateDB when an execution exceeds its access budget.
type WorkSentinel struct{ What string }

func (w WorkSentinel) String() string { return "verif-sentinel:" + w.What }

// IsSentinel reports whether a recovered panic text stems from a WorkSentinel.
func IsSentinel(p string) bool { return strings.HasPrefix(p, "verif-sentinel:") }

func NewTDB(db *state.StateDB) *TDB {
	return &TDB{StateDB: db, addrs: map[common.Address]string{}, slots: map[common.Address]map[common.Hash]common.Hash{}}
}

func (t *TDB) touch(a common.Address) {
	if _, ok := t.addrs[a]; !ok {
		t.addrs[a] = t.acct(a, t.delEmpty)
	}
}

// SetDeleteEmpty fixes the EIP-161 rendering rule for this execution (must be set before the first mutation).
func (t *TDB) SetDeleteEmpty(b bool) { t.delEmpty = b }

func (t *TDB) acct(a common.Address, deleteEmpty bool) string {
	db := t.StateDB
	switch {
	case !db.Exist(a):
		return "absent"
	case db.HasSuicided(a):
		return "suicided bal=" + db.GetBalance(a).String()
	case deleteEmpty && db.Empty(a):
		return "empty-deleted"
	}
	return fmt.Sprintf("bal=%s nonce=%d code=%x", db.GetBalance(a), db.GetNonce(a), db.GetCodeHash(a).Bytes()[:6])
}

func (t *TDB) ResetTouched() {
	t.addrs = map[common.Address]string{}
	t.slots = map[common.Address]map[common.Hash]common.Hash{}
	t.Reads, t.Writes = 0, 0
	t.dirtyLog, t.snapMarks = nil, nil
}

func (t *TDB) CreateAccount(a common.Address) {
	t.touch(a)
	t.dirty(a)
	t.Writes++
	t.StateDB.CreateAccount(a)
}
func (t *TDB) SubBalance(a common.Address, v *big.Int) {
	t.touch(a)
	if v.Sign() != 0 {
		t.dirty(a)
	}
	t.Writes++
	t.StateDB.SubBalance(a, v)
}
func (t *TDB) AddBalance(a common.Address, v *big.Int) {
	t.touch(a)
	if v.Sign() != 0 || t.StateDB.Empty(a) {
		t.dirty(a)
	}
	t.Writes++
	t.StateDB.AddBalance(a, v)
}
func (t *TDB) SetNonce(a common.Address, n uint64) { t.touch(a); t.dirty(a); t.Writes++; t.StateDB.SetNonce(a, n) }
func (t *TDB) SetCode(a common.Address, c []byte)  { t.touch(a); t.dirty(a); t.Writes++; t.StateDB.SetCode(a, c) }
func (t *TDB) SetState(a common.Address, k, v common.Hash) {
	t.touch(a)
	t.Writes++
	m := t.slots[a]
	if m == nil {
		m = map[common.Hash]common.Hash{}
		t.slots[a] = m
	}
	if _, ok := m[k]; !ok {
		m[k] = t.StateDB.GetState(a, k)
	}
	t.StateDB.SetState(a, k, v)
}
func (t *TDB) Suicide(a common.Address) bool { t.touch(a); t.Writes++; return t.StateDB.Suicide(a) }

func (t *TDB) GetState(a common.Address, k common.Hash) common.Hash {
	t.Reads++
	if t.ReadLimit > 0 && t.Reads > t.ReadLimit {
		panic(WorkSentinel{"state_reads"})
	}
	return t.StateDB.GetState(a, k)
}
func (t *TDB) GetCommittedState(a common.Address, k common.Hash) common.Hash {
	t.Reads++
	return t.StateDB.GetCommittedState(a, k)
}
func (t *TDB) GetBalance(a common.Address) *big.Int { t.Reads++; return t.StateDB.GetBalance(a) }
func (t *TDB) GetCode(a common.Address) []byte      { t.Reads++; return t.StateDB.GetCode(a) }

// Digest renders the state DELTA: every mutated account whose rendering differs from the one before its first
// mutation, and every written slot whose value differs from the one before its first write. Entries that were
// touched but ended up unchanged do not appear, so the digest is canonical: from equal pre-states, equal
// digests <=> equal post-states. With deleteEmpty (EIP-161) an existing but empty account is rendered as
// deleted, which is what the end-of-transaction finalisation would do.
func (t *TDB) Digest(deleteEmpty bool) string {
	if deleteEmpty != t.delEmpty {
		panic("world: TDB delete-empty rule changed after first mutation")
	}
	as := make([]common.Address, 0, len(t.addrs))
	for a := range t.addrs {
		as = append(as, a)
	}
	sort.Slice(as, func(i, j int) bool { return string(as[i][:]) < string(as[j][:]) })
	var sb strings.Builder
	for _, a := range as {
		now := t.acct(a, deleteEmpty)
		var slots string
		if m := t.slots[a]; len(m) > 0 && !strings.HasPrefix(now, "absent") && !strings.HasPrefix(now, "empty-deleted") && !strings.HasPrefix(now, "suicided") {
			ks := make([]common.Hash, 0, len(m))
			for k := range m {
				ks = append(ks, k)
			}
			sort.Slice(ks, func(i, j int) bool { return string(ks[i][:]) < string(ks[j][:]) })
			for _, k := range ks {
				if v := t.StateDB.GetState(a, k); v != m[k] {
					slots += fmt.Sprintf(" [%x]=%x", trimZeros(k[:]), trimZeros(v.Bytes()))
				}
			}
		}
		if now == t.addrs[a] && slots == "" {
			continue
		}
		fmt.Fprintf(&sb, "%x:%s%s;", a[:], now, slots)
	}
	return sb.String()
}

func trimZeros(b []byte) []byte {
	for len(b) > 1 && b[0] == 0 {
		b = b[1:]
	}
	return b
}

// Session is a pooled StateDB for case families whose pre-states differ only in code/balance/nonce of some
// accounts: every execution runs between Snapshot and RevertToSnapshot on one long-lived StateDB instead of
// rebuilding the world. Storage pre-state must be identical to the base (it lives in the committed layer).
type Session struct {
	base []Account
	db   *TDB
}

func NewSession(accounts []Account) *Session {
	c := &Case{Accounts: accounts}
	return &Session{base: accounts, db: NewTDB(NewState(c))}
}

// compatible reports whether the case's pre-state can be derived from the base inside a snapshot.
func (s *Session) compatible(c *Case) bool {
	if len(c.Accounts) != len(s.base) {
		return false
	}
	for i := range c.Accounts {
		a, b := &c.Accounts[i], &s.base[i]
		if a.Addr != b.Addr || len(a.Storage) != len(b.Storage) {
			return false
		}
		for k, v := range a.Storage {
			if b.Storage[k] != v {
				return false
			}
		}
	}
	return true
}

func (s *Session) enter(c *Case) func() {
	snap := s.db.StateDB.Snapshot()
	for i := range c.Accounts {
		a, b := &c.Accounts[i], &s.base[i]
		if string(a.Code) != string(b.Code) {
			s.db.StateDB.SetCode(a.Addr, a.Code)
		}
		if a.Nonce != b.Nonce {
			s.db.StateDB.SetNonce(a.Addr, a.Nonce)
		}
		ab, bb := new(big.Int), new(big.Int)
		if a.Balance != nil {
			ab = (*big.Int)(a.Balance)
		}
		if b.Balance != nil {
			bb = (*big.Int)(b.Balance)
		}
		if ab.Cmp(bb) != 0 {
			s.db.StateDB.SetBalance(a.Addr, ab)
		}
	}
	s.db.ResetTouched()
	return func() { s.db.StateDB.RevertToSnapshot(snap) }
}

// A prepares the /repo EVM for the case on the pooled state; call Release on the result when done.
func (s *Session) A(c *Case, opts AOpts) *AEnv {
	if !s.compatible(c) {
		return NewA(c, opts)
	}
	return newA(c, opts, s.db, s.enter(c))
}

// R prepares the reference EVM for the case on the pooled state; call Release on the result when done.
func (s *Session) R(c *Case, opts ROpts) *REnv {
	if !s.compatible(c) {
		return NewR(c, opts)
	}
	return newR(c, opts, s.db, s.enter(c))
}
