package world

import (
	"encoding/hex"
	"math/big"
	"strconv"
	"strings"

	avm "github.com/artela-network/artela-evm/vm"
	atypes "github.com/artela-network/aspect-core/types"
	"github.com/ethereum/go-ethereum/common"
	rvm "github.com/ethereum/go-ethereum/core/vm"
	"github.com/holiman/uint256"
	"google.golang.org/protobuf/proto"
)

// Rec is a debug-tracer recorder shared by both VMs: one canonical text line per callback with all arguments
// copied at the time of the callback.
type Rec struct {
	Lines  []string
	Refund func() uint64
	// OnEvent, if set, is called after each recorded event (used as a scheduling point by mc.Sched).
	OnEvent func(kind byte)
	NoData  bool // omit stack/memory/return data (gas-only projection)
	Steps   int
}

func errText(err error) string {
	if err == nil {
		return "-"
	}
	return err.Error()
}

func bigText(v *big.Int) string {
	if v == nil {
		return "nil"
	}
	return v.String()
}

func (r *Rec) emit(kind byte, s string) {
	r.Lines = append(r.Lines, s)
	if r.OnEvent != nil {
		r.OnEvent(kind)
	}
}

func (r *Rec) state(pc uint64, op byte, gas, cost uint64, stack []uint256.Int, mem []byte, rdata []byte, depth int, err error) {
	r.Steps++
	var sb strings.Builder
	sb.Grow(96 + len(stack)*20 + len(mem)*2)
	sb.WriteString("S pc=")
	sb.WriteString(strconv.FormatUint(pc, 10))
	sb.WriteString(" op=")
	sb.WriteString(strconv.FormatUint(uint64(op), 16))
	sb.WriteString(" gas=")
	sb.WriteString(strconv.FormatUint(gas, 10))
	sb.WriteString(" cost=")
	sb.WriteString(strconv.FormatUint(cost, 10))
	sb.WriteString(" d=")
	sb.WriteString(strconv.Itoa(depth))
	if r.Refund != nil {
		sb.WriteString(" rf=")
		sb.WriteString(strconv.FormatUint(r.Refund(), 10))
	}
	sb.WriteString(" err=")
	sb.WriteString(errText(err))
	if !r.NoData {
		sb.WriteString(" st=")
		for i := range stack {
			sb.WriteString(stack[i].Hex())
			sb.WriteByte(',')
		}
		sb.WriteString(" mem=")
		sb.WriteString(hex.EncodeToString(mem))
		sb.WriteString(" rd=")
		sb.WriteString(hex.EncodeToString(rdata))
	}
	r.emit('S', sb.String())
}

func (r *Rec) fault(pc uint64, op byte, gas, cost uint64, depth int, err error) {
	r.emit('F', "F pc="+strconv.FormatUint(pc, 10)+" op="+strconv.FormatUint(uint64(op), 16)+" gas="+strconv.FormatUint(gas, 10)+" cost="+strconv.FormatUint(cost, 10)+" d="+strconv.Itoa(depth)+" err="+errText(err))
}

func (r *Rec) start(from, to common.Address, create bool, input []byte, gas uint64, value *big.Int) {
	r.emit('B', "B from="+hex.EncodeToString(from[:])+" to="+hex.EncodeToString(to[:])+" create="+strconv.FormatBool(create)+" in="+hex.EncodeToString(input)+" gas="+strconv.FormatUint(gas, 10)+" val="+bigText(value))
}
func (r *Rec) end(out []byte, used uint64, err error) {
	r.emit('E', "E out="+hex.EncodeToString(out)+" used="+strconv.FormatUint(used, 10)+" err="+errText(err))
}
func (r *Rec) enter(typ byte, from, to common.Address, input []byte, gas uint64, value *big.Int) {
	r.emit('>', "> typ="+strconv.FormatUint(uint64(typ), 16)+" from="+hex.EncodeToString(from[:])+" to="+hex.EncodeToString(to[:])+" in="+hex.EncodeToString(input)+" gas="+strconv.FormatUint(gas, 10)+" val="+bigText(value))
}
func (r *Rec) exit(out []byte, used uint64, err error) {
	r.emit('<', "< out="+hex.EncodeToString(out)+" used="+strconv.FormatUint(used, 10)+" err="+errText(err))
}

// ARec adapts Rec to /repo's vm.EVMLogger and types.AspectLogger.
type ARec struct {
	Rec
	// Aspect events are kept apart from Lines so that Lines stays comparable with the reference stream.
	Aspect   []string
	All      []string // interleaved EVM + Aspect events
	KeepAll  bool
	OnAspect func(enter bool, jp atypes.JoinPointRunType, from, to, aspect common.Address, input []byte, gas uint64, value *big.Int, req proto.Message, res *atypes.AspectExecutionResult)
	OnStep   func(pc uint64, op avm.OpCode, gas, cost uint64, scope *avm.ScopeContext, rData []byte, depth int, err error)
	OnFault  func(pc uint64, op avm.OpCode, gas, cost uint64, scope *avm.ScopeContext, depth int, err error)
	OnEnter  func(top bool, typ avm.OpCode, from, to common.Address, input []byte, gas uint64, value *big.Int)
	OnExit   func(top bool, output []byte, gasUsed uint64, err error)
}

func (r *ARec) sync() {
	if r.KeepAll {
		r.All = append(r.All, r.Lines[len(r.Lines)-1])
	}
}

func (r *ARec) CaptureTxStart(gasLimit uint64) {
	r.emit('T', "T "+strconv.FormatUint(gasLimit, 10))
	r.sync()
}
func (r *ARec) CaptureTxEnd(restGas uint64) {
	r.emit('t', "t "+strconv.FormatUint(restGas, 10))
	r.sync()
}
func (r *ARec) CaptureStart(env *avm.EVM, from common.Address, to common.Address, create bool, input []byte, gas uint64, value *big.Int) {
	if r.OnEnter != nil {
		r.OnEnter(true, 0, from, to, input, gas, value)
	}
	r.start(from, to, create, input, gas, value)
	r.sync()
}
func (r *ARec) CaptureEnd(output []byte, gasUsed uint64, err error) {
	if r.OnExit != nil {
		r.OnExit(true, output, gasUsed, err)
	}
	r.end(output, gasUsed, err)
	r.sync()
}
func (r *ARec) CaptureEnter(typ avm.OpCode, from common.Address, to common.Address, input []byte, gas uint64, value *big.Int) {
	if r.OnEnter != nil {
		r.OnEnter(false, typ, from, to, input, gas, value)
	}
	r.enter(byte(typ), from, to, input, gas, value)
	r.sync()
}
func (r *ARec) CaptureExit(output []byte, gasUsed uint64, err error) {
	if r.OnExit != nil {
		r.OnExit(false, output, gasUsed, err)
	}
	r.exit(output, gasUsed, err)
	r.sync()
}
func (r *ARec) CaptureState(pc uint64, op avm.OpCode, gas, cost uint64, scope *avm.ScopeContext, rData []byte, depth int, err error) {
	if r.OnStep != nil {
		r.OnStep(pc, op, gas, cost, scope, rData, depth, err)
	}
	r.state(pc, byte(op), gas, cost, scope.Stack.Data(), scope.Memory.Data(), rData, depth, err)
	r.sync()
}
func (r *ARec) CaptureFault(pc uint64, op avm.OpCode, gas, cost uint64, scope *avm.ScopeContext, depth int, err error) {
	if r.OnFault != nil {
		r.OnFault(pc, op, gas, cost, scope, depth, err)
	}
	r.fault(pc, byte(op), gas, cost, depth, err)
	r.sync()
}
func (r *ARec) CaptureAspectEnter(jp atypes.JoinPointRunType, from, to, aspect common.Address, input []byte, gas uint64, value *big.Int, req proto.Message) {
	if r.OnAspect != nil {
		r.OnAspect(true, jp, from, to, aspect, input, gas, value, req, nil)
	}
	s := "A> jp=" + strconv.Itoa(int(jp)) + " from=" + hex.EncodeToString(from[:]) + " to=" + hex.EncodeToString(to[:]) + " asp=" + hex.EncodeToString(aspect[:]) + " in=" + hex.EncodeToString(input) + " gas=" + strconv.FormatUint(gas, 10) + " val=" + bigText(value)
	r.Aspect = append(r.Aspect, s)
	if r.KeepAll {
		r.All = append(r.All, s)
	}
	if r.OnEvent != nil {
		r.OnEvent('a')
	}
}
func (r *ARec) CaptureAspectExit(jp atypes.JoinPointRunType, res *atypes.AspectExecutionResult) {
	if r.OnAspect != nil {
		r.OnAspect(false, jp, common.Address{}, common.Address{}, common.Address{}, nil, 0, nil, nil, res)
	}
	s := "A< jp=" + strconv.Itoa(int(jp)) + " gas=" + strconv.FormatUint(res.Gas, 10) + " err=" + errText(res.Err) + " ret=" + hex.EncodeToString(res.Ret)
	r.Aspect = append(r.Aspect, s)
	if r.KeepAll {
		r.All = append(r.All, s)
	}
	if r.OnEvent != nil {
		r.OnEvent('b')
	}
}

// ACount is a minimal non-nil debug tracer for /repo: it only counts callbacks.
type ACount struct{ Steps, Frames int }

func (r *ACount) CaptureTxStart(uint64) {}
func (r *ACount) CaptureTxEnd(uint64)   {}
func (r *ACount) CaptureStart(*avm.EVM, common.Address, common.Address, bool, []byte, uint64, *big.Int) {
	r.Frames++
}
func (r *ACount) CaptureEnd([]byte, uint64, error) {}
func (r *ACount) CaptureEnter(avm.OpCode, common.Address, common.Address, []byte, uint64, *big.Int) {
	r.Frames++
}
func (r *ACount) CaptureExit([]byte, uint64, error) {}
func (r *ACount) CaptureState(uint64, avm.OpCode, uint64, uint64, *avm.ScopeContext, []byte, int, error) {
	r.Steps++
}
func (r *ACount) CaptureFault(uint64, avm.OpCode, uint64, uint64, *avm.ScopeContext, int, error) {}

// RRec adapts Rec to upstream's vm.EVMLogger.
type RRec struct{ Rec }

func (r *RRec) CaptureTxStart(gasLimit uint64) { r.emit('T', "T "+strconv.FormatUint(gasLimit, 10)) }
func (r *RRec) CaptureTxEnd(restGas uint64)    { r.emit('t', "t "+strconv.FormatUint(restGas, 10)) }
func (r *RRec) CaptureStart(env *rvm.EVM, from common.Address, to common.Address, create bool, input []byte, gas uint64, value *big.Int) {
	r.start(from, to, create, input, gas, value)
}
func (r *RRec) CaptureEnd(output []byte, gasUsed uint64, err error) { r.end(output, gasUsed, err) }
func (r *RRec) CaptureEnter(typ rvm.OpCode, from common.Address, to common.Address, input []byte, gas uint64, value *big.Int) {
	r.enter(byte(typ), from, to, input, gas, value)
}
func (r *RRec) CaptureExit(output []byte, gasUsed uint64, err error) { r.exit(output, gasUsed, err) }
func (r *RRec) CaptureState(pc uint64, op rvm.OpCode, gas, cost uint64, scope *rvm.ScopeContext, rData []byte, depth int, err error) {
	r.state(pc, byte(op), gas, cost, scope.Stack.Data(), scope.Memory.Data(), rData, depth, err)
}
func (r *RRec) CaptureFault(pc uint64, op rvm.OpCode, gas, cost uint64, scope *rvm.ScopeContext, depth int, err error) {
	r.fault(pc, byte(op), gas, cost, depth, err)
}

// FirstDiff returns the index and the two differing lines of two event streams, or -1.
func FirstDiff(a, b []string) (int, string, string) {
	n := len(a)
	if len(b) < n {
		n = len(b)
	}
	for i := 0; i < n; i++ {
		if a[i] != b[i] {
			return i, a[i], b[i]
		}
	}
	if len(a) != len(b) {
		var x, y string
		if n < len(a) {
			x = a[n]
		}
		if n < len(b) {
			y = b[n]
		}
		return n, x, y
	}
	return -1, "", ""
}
