// Package world builds, from one declarative Case, the same world for /repo's vm package (A side) and for
// upstream go-ethereum v1.12.0 core/vm (R side, the reference model), executes an entry point and returns a
// canonical observation.
package world

import (
	"context"
	"fmt"
	"math/big"
	"sort"
	"strings"

	avm "github.com/artela-network/artela-evm/vm"
	"github.com/artela-network/aspect-core/djpm"
	atypes "github.com/artela-network/aspect-core/types"
	"github.com/ethereum/go-ethereum/common"
	"github.com/ethereum/go-ethereum/common/hexutil"
	"github.com/ethereum/go-ethereum/core"
	"github.com/ethereum/go-ethereum/core/rawdb"
	"github.com/ethereum/go-ethereum/core/state"
	ethtypes "github.com/ethereum/go-ethereum/core/types"
	rvm "github.com/ethereum/go-ethereum/core/vm"
	"github.com/ethereum/go-ethereum/params"
	"github.com/holiman/uint256"
	"google.golang.org/protobuf/proto"
)

type Fork int

const (
	Frontier Fork = iota
	Homestead
	Tangerine
	Spurious
	Byzantium
	Constantinople
	Petersburg
	Istanbul
	Berlin
	London
	Merge
	Shanghai
	Cancun
	NumForks
)

var forkNames = [...]string{"Frontier", "Homestead", "TangerineWhistle", "SpuriousDragon", "Byzantium", "Constantinople", "Petersburg", "Istanbul", "Berlin", "London", "Merge", "Shanghai", "Cancun"}

func (f Fork) String() string { return forkNames[f] }

// StandardForks are the forks the reference implementation shares with /repo (Frontier..Shanghai).
func StandardForks() []Fork {
	out := []Fork{}
	for f := Frontier; f <= Shanghai; f++ {
		out = append(out, f)
	}
	return out
}

const (
	BlockNumber = 1000
	BlockTime   = 1000
)

var configs [NumForks]*params.ChainConfig

func init() {
	for f := Frontier; f < NumForks; f++ {
		c := &params.ChainConfig{ChainID: big.NewInt(1)}
		z := big.NewInt(0)
		if f >= Homestead {
			c.HomesteadBlock = z
		}
		if f >= Tangerine {
			c.EIP150Block = z
		}
		if f >= Spurious {
			c.EIP155Block = z
			c.EIP158Block = z
		}
		if f >= Byzantium {
			c.ByzantiumBlock = z
		}
		if f >= Constantinople {
			c.ConstantinopleBlock = z
		}
		if f >= Petersburg {
			c.PetersburgBlock = z
		}
		if f >= Istanbul {
			c.IstanbulBlock = z
		}
		if f >= Berlin {
			c.BerlinBlock = z
		}
		if f >= London {
			c.LondonBlock = z
		}
		if f >= Merge {
			c.TerminalTotalDifficulty = z
			c.TerminalTotalDifficultyPassed = true
		}
		if f >= Shanghai {
			t := uint64(0)
			c.ShanghaiTime = &t
		}
		if f >= Cancun {
			t := uint64(0)
			c.CancunTime = &t
		}
		configs[f] = c
	}
}

func Config(f Fork) *params.ChainConfig { return configs[f] }

func Rules(f Fork) params.Rules {
	return configs[f].Rules(big.NewInt(BlockNumber), f >= Merge, BlockTime)
}

// Well-known addresses of the worlds.
var (
	Origin   = common.HexToAddress("0x00000000000000000000000000000000000a11ce")
	Coinbase = common.HexToAddress("0x000000000000000000000000000000000000c01b")
)

// ContractAddr returns the deterministic address of the i-th contract of a case.
func ContractAddr(i int) common.Address {
	return common.BytesToAddress([]byte{0xc0, 0xde, 0x00, byte(i >> 8), byte(i)})
}

type Account struct {
	Addr    common.Address              `json:"addr"`
	Balance *hexutil.Big                `json:"balance,omitempty"`
	Nonce   uint64                      `json:"nonce,omitempty"`
	Code    hexutil.Bytes               `json:"code,omitempty"`
	Storage map[common.Hash]common.Hash `json:"storage,omitempty"`
}

type Case struct {
	Fork      Fork             `json:"fork"`
	ForkName  string           `json:"fork_name,omitempty"`
	ExtraEips []int            `json:"extra_eips,omitempty"`
	Accounts  []Account        `json:"accounts"`
	Entry     string           `json:"entry"` // call callcode delegatecall staticcall create create2
	From      common.Address   `json:"from"`
	To        common.Address   `json:"to"`
	Input     hexutil.Bytes    `json:"input,omitempty"`
	Gas       uint64           `json:"gas"`
	Value     *hexutil.Big     `json:"value,omitempty"`
	Salt      uint64           `json:"salt,omitempty"`
	WarmAddrs []common.Address `json:"warm_addrs,omitempty"`
	WarmSlots []common.Hash    `json:"warm_slots,omitempty"` // slots of To
	Note      string           `json:"note,omitempty"`
}

func (c *Case) ValueBig() *big.Int {
	if c.Value == nil {
		return new(big.Int)
	}
	return new(big.Int).Set((*big.Int)(c.Value))
}

func Big(v uint64) *hexutil.Big { return (*hexutil.Big)(new(big.Int).SetUint64(v)) }

var randomHash = common.HexToHash("0x1122334455667788990011223344556677889900aabbccddeeff001122334455")

func getHash(n uint64) common.Hash {
	return common.BigToHash(new(big.Int).SetUint64(n + 0x1000))
}

// NewState builds a fresh StateDB populated from the case. Storage is moved to the committed layer so that
// net-gas metering sees the pre-state as "original" values.
func NewState(c *Case) *state.StateDB {
	db, err := state.New(common.Hash{}, state.NewDatabase(rawdb.NewMemoryDatabase()), nil)
	if err != nil {
		panic(err)
	}
	for _, a := range c.Accounts {
		db.CreateAccount(a.Addr)
		if a.Balance != nil {
			db.SetBalance(a.Addr, (*big.Int)(a.Balance))
		}
		if a.Nonce != 0 {
			db.SetNonce(a.Addr, a.Nonce)
		}
		if len(a.Code) > 0 {
			db.SetCode(a.Addr, a.Code)
		}
		for k, v := range a.Storage {
			db.SetState(a.Addr, k, v)
		}
	}
	db.Finalise(false)
	return db
}

func accessList(c *Case) ethtypes.AccessList {
	var al ethtypes.AccessList
	for _, a := range c.WarmAddrs {
		al = append(al, ethtypes.AccessTuple{Address: a})
	}
	if len(c.WarmSlots) > 0 {
		al = append(al, ethtypes.AccessTuple{Address: c.To, StorageKeys: c.WarmSlots})
	}
	return al
}

// LogObs is one emitted log.
type LogObs struct {
	Addr   common.Address `json:"addr"`
	Topics []common.Hash  `json:"topics"`
	Data   hexutil.Bytes  `json:"data"`
}

// Obs is the canonical observation of one execution.
type Obs struct {
	Ret      hexutil.Bytes    `json:"ret"`
	Err      string           `json:"err"`
	Class    string           `json:"class"` // ok | revert | halt
	Gas      uint64           `json:"gas"`
	Created  common.Address   `json:"created"`
	Logs     []LogObs         `json:"logs"`
	Refund   uint64           `json:"refund"`
	State    string           `json:"state"` // canonical digest of every account/slot mutated through the StateDB
	Suicided []common.Address `json:"suicided"`
	Panic    string           `json:"panic,omitempty"`
	Trace    []string         `json:"trace,omitempty"`
}

func ErrClass(err error) string {
	if err == nil {
		return "ok"
	}
	if err.Error() == "execution reverted" {
		return "revert"
	}
	return "halt"
}

// Key is a canonical string of the observation without the trace.
func (o *Obs) Key() string {
	var sb strings.Builder
	fmt.Fprintf(&sb, "ret=%x class=%s gas=%d created=%x refund=%d sui=%x panic=%s state={%s} logs=", []byte(o.Ret), o.Class, o.Gas, o.Created[:], o.Refund, o.Suicided, o.Panic, o.State)
	for _, l := range o.Logs {
		fmt.Fprintf(&sb, "[%x %x %x]", l.Addr[:], l.Topics, []byte(l.Data))
	}
	return sb.String()
}

func collect(db *TDB, c *Case, f Fork, o *Obs, known []common.Address) {
	for _, l := range db.Logs() {
		o.Logs = append(o.Logs, LogObs{l.Address, l.Topics, l.Data})
	}
	o.Refund = db.GetRefund()
	seen := map[common.Address]bool{}
	for _, a := range known {
		if !seen[a] && db.HasSuicided(a) {
			o.Suicided = append(o.Suicided, a)
		}
		seen[a] = true
	}
	sort.Slice(o.Suicided, func(i, j int) bool { return string(o.Suicided[i][:]) < string(o.Suicided[j][:]) })
	o.State = db.Digest(f >= Spurious)
}

func knownAddrs(c *Case, created common.Address) []common.Address {
	out := []common.Address{c.From, c.To, Origin, created}
	for _, a := range c.Accounts {
		out = append(out, a.Addr)
	}
	return out
}

// ---------------------------------------------------------------- reference side

type ROpts struct {
	Tracer rvm.EVMLogger
}

func RBlockCtx(f Fork) rvm.BlockContext {
	bc := rvm.BlockContext{
		CanTransfer: core.CanTransfer,
		Transfer:    core.Transfer,
		GetHash:     getHash,
		Coinbase:    Coinbase,
		GasLimit:    30_000_000,
		BlockNumber: big.NewInt(BlockNumber),
		Time:        BlockTime,
		Difficulty:  big.NewInt(0x20000),
		BaseFee:     big.NewInt(7),
	}
	if f >= Merge {
		h := randomHash
		bc.Random = &h
		bc.Difficulty = big.NewInt(0)
	}
	return bc
}

// REnv is a prepared reference EVM.
type REnv struct {
	DB   *TDB
	EVM  *rvm.EVM
	done func()
}

// Release returns a pooled state to its base (no-op for a private state).
func (e *REnv) Release() {
	if e.done != nil {
		e.done()
		e.done = nil
	}
}

func NewR(c *Case, opts ROpts) *REnv { return newR(c, opts, NewTDB(NewState(c)), nil) }

func newR(c *Case, opts ROpts, db *TDB, done func()) *REnv {
	cfg := rvm.Config{Tracer: opts.Tracer, ExtraEips: append([]int{}, c.ExtraEips...)}
	evm := rvm.NewEVM(RBlockCtx(c.Fork), rvm.TxContext{Origin: Origin, GasPrice: big.NewInt(11)}, db, Config(c.Fork), cfg)
	rules := Rules(c.Fork)
	var dst *common.Address
	if c.Entry != "create" && c.Entry != "create2" {
		to := c.To
		dst = &to
	}
	db.Prepare(rules, Origin, Coinbase, dst, rvm.ActivePrecompiles(rules), accessList(c))
	db.SetDeleteEmpty(c.Fork >= Spurious)
	return &REnv{db, evm, done}
}

// Call runs the case's entry point on the reference EVM without collecting state.
func (e *REnv) Call(c *Case) (ret []byte, created common.Address, gas uint64, err error, panicked string) {
	defer func() {
		if r := recover(); r != nil {
			panicked = fmt.Sprint(r)
		}
	}()
	from := rvm.AccountRef(c.From)
	switch c.Entry {
	case "call":
		ret, gas, err = e.EVM.Call(from, c.To, c.Input, c.Gas, c.ValueBig())
	case "callcode":
		ret, gas, err = e.EVM.CallCode(from, c.To, c.Input, c.Gas, c.ValueBig())
	case "delegatecall":
		parent := rvm.NewContract(rvm.AccountRef(Origin), from, c.ValueBig(), c.Gas)
		ret, gas, err = e.EVM.DelegateCall(parent, c.To, c.Input, c.Gas)
	case "staticcall":
		ret, gas, err = e.EVM.StaticCall(from, c.To, c.Input, c.Gas)
	case "create":
		ret, created, gas, err = e.EVM.Create(from, c.Input, c.Gas, c.ValueBig())
	case "create2":
		ret, created, gas, err = e.EVM.Create2(from, c.Input, c.Gas, c.ValueBig(), uint256.NewInt(c.Salt))
	default:
		panic("bad entry " + c.Entry)
	}
	return
}

// Invoke runs the case's entry point on the reference EVM.
func (e *REnv) Invoke(c *Case) (o *Obs) {
	o = &Obs{}
	var (
		ret []byte
		gas uint64
		err error
	)
	func() {
		defer func() {
			if r := recover(); r != nil {
				o.Panic = fmt.Sprint(r)
			}
		}()
		from := rvm.AccountRef(c.From)
		switch c.Entry {
		case "call":
			ret, gas, err = e.EVM.Call(from, c.To, c.Input, c.Gas, c.ValueBig())
		case "callcode":
			ret, gas, err = e.EVM.CallCode(from, c.To, c.Input, c.Gas, c.ValueBig())
		case "delegatecall":
			parent := rvm.NewContract(rvm.AccountRef(Origin), from, c.ValueBig(), c.Gas)
			ret, gas, err = e.EVM.DelegateCall(parent, c.To, c.Input, c.Gas)
		case "staticcall":
			ret, gas, err = e.EVM.StaticCall(from, c.To, c.Input, c.Gas)
		case "create":
			ret, o.Created, gas, err = e.EVM.Create(from, c.Input, c.Gas, c.ValueBig())
		case "create2":
			ret, o.Created, gas, err = e.EVM.Create2(from, c.Input, c.Gas, c.ValueBig(), uint256.NewInt(c.Salt))
		default:
			panic("bad entry " + c.Entry)
		}
	}()
	o.Ret, o.Gas = ret, gas
	if err != nil {
		o.Err = err.Error()
	}
	o.Class = ErrClass(err)
	if o.Panic == "" {
		collect(e.DB, c, c.Fork, o, knownAddrs(c, o.Created))
	}
	e.Release()
	return o
}

// ---------------------------------------------------------------- Artela side

// Host is the per-execution host environment reached through the context passed to the entry points.
type Host struct {
	// Bound answers provider.GetTxBondAspects. nil => nothing bound.
	Bound func(contract common.Address, cut atypes.PointCut) ([]*atypes.AspectCode, error)
	// JoinPoint answers one Aspect execution (stub runner).
	JoinPoint func(aspect common.Address, cut atypes.PointCut, gas uint64, block int64, contract common.Address, req proto.Message) ([]byte, uint64, error)
	GetCtx    func(aspect common.Address, key string) ([]byte, error)
	SetCtx    func(aspect common.Address, key string, value []byte) error
	JITSender func(h common.Hash) (common.Address, error)
}

type hostKey struct{}

func WithHost(h *Host) context.Context {
	return context.WithValue(context.Background(), hostKey{}, h)
}

func hostOf(ctx context.Context) *Host {
	if ctx == nil {
		return nil
	}
	h, _ := ctx.Value(hostKey{}).(*Host)
	return h
}

type provider struct{}

func (provider) GetTxBondAspects(ctx context.Context, a common.Address, cut atypes.PointCut) ([]*atypes.AspectCode, error) {
	if h := hostOf(ctx); h != nil && h.Bound != nil {
		return h.Bound(a, cut)
	}
	return nil, nil
}
func (provider) GetAccountVerifiers(context.Context, common.Address) ([]*atypes.AspectCode, error) {
	return nil, nil
}
func (provider) GetLatestBlock() int64 { return BlockNumber }

func init() {
	djpm.NewAspect(provider{}, atypes.NoOpsLogger{})
	atypes.IsCommit = func(context.Context) bool { return false }
	atypes.GetAspectContext = func(ctx context.Context, a common.Address, key string) ([]byte, error) {
		if h := hostOf(ctx); h != nil && h.GetCtx != nil {
			return h.GetCtx(a, key)
		}
		return nil, nil
	}
	atypes.SetAspectContext = func(ctx context.Context, a common.Address, key string, v []byte) error {
		if h := hostOf(ctx); h != nil && h.SetCtx != nil {
			return h.SetCtx(a, key, v)
		}
		return nil
	}
	atypes.JITSenderAspectByContext = func(ctx context.Context, hh common.Hash) (common.Address, error) {
		if h := hostOf(ctx); h != nil && h.JITSender != nil {
			return h.JITSender(hh)
		}
		return common.Address{}, nil
	}
	installRunnerHook()
}

// JoinPointOf forwards one Aspect execution to the scripted host of the context (used by the stub runner).
func JoinPointOf(ctx context.Context, aspect common.Address, cut atypes.PointCut, gas uint64, block int64, contract common.Address, req proto.Message) ([]byte, uint64, error) {
	h := hostOf(ctx)
	if h == nil || h.JoinPoint == nil {
		panic("verif: join point executed without a scripted host")
	}
	return h.JoinPoint(aspect, cut, gas, block, contract, req)
}

type AOpts struct {
	Tracer   avm.EVMLogger
	JPOff    bool
	Host     *Host
	Transfer avm.TransferFunc // optional wrapper
	WrapDB   func(avm.StateDB) avm.StateDB
	// ChainConfig / BlockNumber override the case's fork configuration and the block the EVM is built in (used for
	// EVMs that are moved across a fork boundary with SetBlockContext)
	ChainConfig *params.ChainConfig
	BlockNumber uint64
}

func ABlockCtx(f Fork) avm.BlockContext {
	bc := avm.BlockContext{
		CanTransfer: func(db avm.StateDB, a common.Address, v *big.Int) bool { return db.GetBalance(a).Cmp(v) >= 0 },
		Transfer: func(db avm.StateDB, s, r common.Address, v *big.Int) {
			db.SubBalance(s, v)
			db.AddBalance(r, v)
		},
		GetHash:     getHash,
		Coinbase:    Coinbase,
		GasLimit:    30_000_000,
		BlockNumber: big.NewInt(BlockNumber),
		Time:        BlockTime,
		Difficulty:  big.NewInt(0x20000),
		BaseFee:     big.NewInt(7),
	}
	if f >= Merge {
		h := randomHash
		bc.Random = &h
		bc.Difficulty = big.NewInt(0)
	}
	return bc
}

// AEnv is a prepared /repo EVM.
type AEnv struct {
	DB   *TDB
	EVM  *avm.EVM
	Ctx  context.Context
	done func()
	// BlockCtx is the block context the host built the EVM with (what a host hands to SetBlockContext again)
	BlockCtx avm.BlockContext
}

// Release returns a pooled state to its base (no-op for a private state).
func (e *AEnv) Release() {
	if e.done != nil {
		e.done()
		e.done = nil
	}
}

func NewA(c *Case, opts AOpts) *AEnv { return newA(c, opts, NewTDB(NewState(c)), nil) }

// NewAOn builds the environment over a state the caller supplies (e.g. a Copy of a template state).
func NewAOn(c *Case, opts AOpts, sdb *state.StateDB) *AEnv { return newA(c, opts, NewTDB(sdb), nil) }

func newA(c *Case, opts AOpts, db *TDB, done func()) *AEnv {
	cfg := avm.Config{Tracer: opts.Tracer, ExtraEips: append([]int{}, c.ExtraEips...)}
	bc := ABlockCtx(c.Fork)
	if opts.Transfer != nil {
		bc.Transfer = opts.Transfer
	}
	var sdb avm.StateDB = db
	if opts.WrapDB != nil {
		sdb = opts.WrapDB(db)
	}
	cc := Config(c.Fork)
	if opts.ChainConfig != nil {
		cc = opts.ChainConfig
	}
	if opts.BlockNumber != 0 {
		bc.BlockNumber = new(big.Int).SetUint64(opts.BlockNumber)
	}
	evm := avm.NewEVM(bc, avm.TxContext{Origin: Origin, GasPrice: big.NewInt(11)}, sdb, cc, cfg)
	if opts.JPOff {
		evm.CloseAspectCall()
	}
	rules := Rules(c.Fork)
	var dst *common.Address
	if c.Entry != "create" && c.Entry != "create2" {
		to := c.To
		dst = &to
	}
	db.Prepare(rules, Origin, Coinbase, dst, avm.ActivePrecompiles(rules), accessList(c))
	db.SetDeleteEmpty(c.Fork >= Spurious)
	h := opts.Host
	if h == nil {
		h = &Host{}
	}
	return &AEnv{DB: db, EVM: evm, Ctx: WithHost(h), done: done, BlockCtx: bc}
}

// Call runs one entry point on the /repo EVM without collecting state (for multi-invocation scenarios).
func (e *AEnv) Call(c *Case) (ret []byte, created common.Address, gas uint64, err error, panicked string) {
	defer func() {
		if r := recover(); r != nil {
			panicked = fmt.Sprint(r)
		}
	}()
	from := avm.AccountRef(c.From)
	switch c.Entry {
	case "call":
		ret, gas, err = e.EVM.Call(e.Ctx, from, c.To, c.Input, c.Gas, c.ValueBig())
	case "callcode":
		ret, gas, err = e.EVM.CallCode(e.Ctx, from, c.To, c.Input, c.Gas, c.ValueBig())
	case "delegatecall":
		parent := avm.NewContract(avm.AccountRef(Origin), from, c.ValueBig(), c.Gas)
		ret, gas, err = e.EVM.DelegateCall(e.Ctx, parent, c.To, c.Input, c.Gas)
	case "staticcall":
		ret, gas, err = e.EVM.StaticCall(e.Ctx, from, c.To, c.Input, c.Gas)
	case "create":
		ret, created, gas, err = e.EVM.Create(e.Ctx, from, c.Input, c.Gas, c.ValueBig())
	case "create2":
		ret, created, gas, err = e.EVM.Create2(e.Ctx, from, c.Input, c.Gas, c.ValueBig(), uint256.NewInt(c.Salt))
	default:
		panic("bad entry " + c.Entry)
	}
	return
}

// Invoke runs the case's entry point on the /repo EVM and collects the observation.
func (e *AEnv) Invoke(c *Case) *Obs {
	o := &Obs{}
	ret, created, gas, err, p := e.Call(c)
	o.Ret, o.Gas, o.Created, o.Panic = ret, gas, created, p
	if err != nil {
		o.Err = err.Error()
	}
	o.Class = ErrClass(err)
	if o.Panic == "" {
		collect(e.DB, c, c.Fork, o, knownAddrs(c, o.Created))
	}
	e.Release()
	return o
}

// DumpState renders accounts of interest for diagnostics.
func DumpState(db *TDB, addrs []common.Address) string {
	var sb strings.Builder
	seen := map[common.Address]bool{}
	for _, a := range addrs {
		if seen[a] {
			continue
		}
		seen[a] = true
		fmt.Fprintf(&sb, "%x exist=%v bal=%s nonce=%d code=%x\n", a[:], db.Exist(a), db.GetBalance(a), db.GetNonce(a), db.GetCode(a))
	}
	return sb.String()
}
