//go:build !realrunner

package world

import (
	"context"

	"github.com/artela-network/aspect-core/djpm/run"
	atypes "github.com/artela-network/aspect-core/types"
	"github.com/ethereum/go-ethereum/common"
	"google.golang.org/protobuf/proto"
)

// RealRunner reports whether this binary links the real WASM Aspect runner (build tag realrunner) instead of the
// scripted stub.
const RealRunner = false

func installRunnerHook() {
	run.VerifJoinPoint = func(ctx context.Context, aspect common.Address, ver uint64, cut atypes.PointCut, gas uint64, block int64, contract common.Address, req proto.Message) ([]byte, uint64, error) {
		return JoinPointOf(ctx, aspect, cut, gas, block, contract, req)
	}
}
