//go:build realrunner

package world

import (
	"context"

	atypes "github.com/artela-network/aspect-core/types"
)

// RealRunner: this binary runs Aspects on the real aspect-runtime (wasmtime); no stub is linked.
const RealRunner = true

func installRunnerHook() {
	atypes.InitRuntimePool(context.Background(), atypes.NoOpsLogger{}, 0, 0) // capacity 0: a fresh runtime per run
}
