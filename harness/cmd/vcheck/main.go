// vcheck is the single entry point of the /verif checks: master (spawns workers, merges, triages violations
// against known_findings.txt, writes evidence and replay files) and worker (runs one shard of a check).
package main

import (
	"bufio"
	"encoding/json"
	"flag"
	"fmt"
	"os"
	"os/exec"
	"path/filepath"
	"runtime"
	"runtime/pprof"
	"sort"
	"strconv"
	"strings"
	"sync"
	"time"

	"verif/checks"
	"verif/fw"
)

var (
	prop     = flag.String("prop", "", "property id")
	tier     = flag.String("tier", "", "quick|thorough")
	worker   = flag.Int("worker", -1, "worker index (internal)")
	of       = flag.Int("of", 1, "number of workers (internal)")
	dir      = flag.String("dir", "", "run directory (internal)")
	skipList = flag.String("skip", "", "comma separated case indices not to run again (they killed an earlier attempt) (internal)")
	deadline = flag.Int64("deadline", 0, "unix deadline (internal)")
	replay   = flag.String("replay", "", "replay file")
	nworkers = flag.Int("workers", 0, "override worker count")
	verifDir = flag.String("verif", "/verif", "verif root")
	budget   = flag.Duration("budget", 0, "override internal time budget")
	cpuprof  = flag.String("cpuprofile", "", "write a CPU profile of this worker")
	resume   = flag.Bool("resume", false, "continue from the checkpoint of an earlier attempt (internal)")
	racepass = flag.Bool("racepass", false, "run the free-running bodies of C17 (race binary)")
	c17solo  = flag.Int("c17solo", -1, "print the solo observation of C17 instance N (internal)")
	realconf = flag.Bool("realconf", false, "run the real-runtime conformance shard (vcheck-real binary)")
)

func main() {
	flag.Parse()
	if *racepass {
		checks.C17RacePass()
		return
	}
	if *realconf {
		checks.RealConformance(*worker, *of, *tier == "thorough")
		return
	}
	if *c17solo >= 0 {
		checks.C17Solo(*c17solo)
		return
	}
	c := checks.Registry[*prop]
	if c == nil {
		fmt.Fprintf(os.Stderr, "unknown property %q\n", *prop)
		os.Exit(2)
	}
	if *tier == "" {
		*tier = os.Getenv("VERIF_TIER")
	}
	if *tier != "thorough" {
		*tier = "quick"
	}
	seed := int64(0)
	if s := os.Getenv("VERIF_SEED"); s != "" {
		seed, _ = strconv.ParseInt(s, 10, 64)
	}
	if *replay != "" {
		os.Exit(doReplay(c, *replay))
	}
	if *worker >= 0 {
		os.Exit(doWorker(c, seed))
	}
	os.Exit(doMaster(c, seed))
}

func doWorker(c *checks.Check, seed int64) int {
	if *cpuprof != "" {
		f, _ := os.Create(*cpuprof)
		pprof.StartCPUProfile(f)
		defer pprof.StopCPUProfile()
	}
	w := fw.NewW(c.ID, *worker, *of, *tier, seed)
	for _, t := range strings.Split(*skipList, ",") {
		if t != "" {
			k, _ := strconv.ParseInt(t, 10, 64)
			w.SkipSet[k] = true
		}
	}
	if *deadline > 0 {
		w.Deadline = time.Unix(*deadline, 0)
	}
	if c.CrashAware {
		w.CkptDir = *dir
		if *resume {
			w.Restore(*dir)
		}
		f, err := os.OpenFile(fmt.Sprintf("%s/w%d.progress", *dir, *worker), os.O_CREATE|os.O_WRONLY|os.O_TRUNC, 0o644)
		if err == nil {
			w.Progress = f
			defer f.Close()
		}
	}
	c.Run(w)
	if err := w.Finish(*dir); err != nil {
		fmt.Fprintln(os.Stderr, "worker finish:", err)
		return 2
	}
	return 0
}

type replayFile struct {
	Property string          `json:"property"`
	Sig      string          `json:"sig"`
	Detail   string          `json:"detail"`
	Case     json.RawMessage `json:"case"`
}

func doReplay(c *checks.Check, path string) int {
	b, err := os.ReadFile(path)
	if err != nil {
		fmt.Fprintln(os.Stderr, err)
		return 2
	}
	var rf replayFile
	if err := json.Unmarshal(b, &rf); err != nil {
		fmt.Fprintln(os.Stderr, err)
		return 2
	}
	if c.Replay == nil {
		fmt.Fprintln(os.Stderr, "check has no replay function")
		return 2
	}
	vs := c.Replay(rf.Case)
	if len(vs) == 0 {
		fmt.Printf("replay of %s: property %s holds on this case\n", path, c.ID)
		return 0
	}
	for _, v := range vs {
		fmt.Printf("replay: sig=%s\n%s\n", v.Sig, v.Detail)
	}
	fmt.Printf("VIOLATION property=%s replay=%s\n", c.ID, path)
	return 1
}

func lastProgress(path string) (int64, string, bool) {
	f, err := os.Open(path)
	if err != nil {
		return 0, "", false
	}
	defer f.Close()
	var last string
	sc := bufio.NewScanner(f)
	sc.Buffer(make([]byte, 1<<20), 1<<24)
	for sc.Scan() {
		if t := sc.Text(); t != "" {
			last = t
		}
	}
	if last == "" {
		return 0, "", false
	}
	parts := strings.SplitN(last, "\t", 2)
	n, err := strconv.ParseInt(parts[0], 10, 64)
	if err != nil {
		return 0, "", false
	}
	d := ""
	if len(parts) > 1 {
		d = parts[1]
	}
	return n, d, true
}

func doMaster(c *checks.Check, seed int64) int {
	start := time.Now()
	n := c.Workers
	if n == 0 {
		n = runtime.NumCPU()
	}
	if *nworkers > 0 {
		n = *nworkers
	}
	bud := c.Quick
	if *tier == "thorough" {
		bud = c.Thorough
	}
	if *budget > 0 {
		bud = *budget
	}
	if bud == 0 {
		bud = 5 * time.Minute
	}
	dl := start.Add(bud).Unix()
	runDir := filepath.Join(*verifDir, "build", fmt.Sprintf("run-%s-%d", c.ID, os.Getpid()))
	os.MkdirAll(runDir, 0o755)
	defer os.RemoveAll(runDir)
	self, _ := os.Executable()

	var mu sync.Mutex
	var crashViolations []fw.Violation
	var harnessErrs []string
	var wg sync.WaitGroup
	for i := 0; i < n; i++ {
		wg.Add(1)
		go func(i int) {
			defer wg.Done()
			var skips []string
			skipped := map[int64]bool{}
			for attempt := 0; ; attempt++ {
				args := []string{"-prop", c.ID, "-tier", *tier, "-worker", strconv.Itoa(i), "-of", strconv.Itoa(n), "-dir", runDir, "-deadline", strconv.FormatInt(dl, 10), "-verif", *verifDir}
				if len(skips) > 0 {
					args = append(args, "-skip", strings.Join(skips, ","), "-resume")
				}
				var cmd *exec.Cmd
				if c.MemLimitKB > 0 {
					sh := fmt.Sprintf("ulimit -v %d; exec %s %s", c.MemLimitKB, self, strings.Join(args, " "))
					cmd = exec.Command("/bin/sh", "-c", sh)
				} else {
					cmd = exec.Command(self, args...)
				}
				cmd.Env = append(os.Environ(), "GOMAXPROCS=2", "GOGC=400")
				logf, _ := os.Create(fmt.Sprintf("%s/w%d.a%d.log", runDir, i, attempt))
				cmd.Stdout, cmd.Stderr = logf, logf
				err := cmd.Run()
				logf.Close()
				if err == nil {
					return
				}
				logb, _ := os.ReadFile(fmt.Sprintf("%s/w%d.a%d.log", runDir, i, attempt))
				tail := string(logb)
				if len(tail) > 3000 {
					tail = tail[:1500] + "\n...\n" + tail[len(tail)-1500:]
				}
				if !c.CrashAware {
					mu.Lock()
					harnessErrs = append(harnessErrs, fmt.Sprintf("worker %d died: %v\n%s", i, err, tail))
					mu.Unlock()
					return
				}
				// A worker death (fatal error: out of memory / stack overflow cannot be recovered in Go) is
				// attributed to the case named last in the progress file; the shard is re-run from its start
				// without that case, so nothing an earlier attempt found is lost.
				idx, desc, ok := lastProgress(fmt.Sprintf("%s/w%d.progress", runDir, i))
				if !ok || skipped[idx] || attempt > 100 {
					mu.Lock()
					harnessErrs = append(harnessErrs, fmt.Sprintf("worker %d died without attributable progress: %v\n%s", i, err, tail))
					mu.Unlock()
					return
				}
				sig, cs := "crash:worker_death", json.RawMessage(strconv.Quote(desc))
				if c.CrashSig != nil {
					sig, cs = c.CrashSig(desc)
				}
				first := tail
				if k := strings.Index(first, "\n"); k > 0 {
					first = first[:k]
				}
				mu.Lock()
				crashViolations = append(crashViolations, fw.Violation{Sig: sig, Detail: "worker process died: " + first, Case: cs})
				mu.Unlock()
				skipped[idx] = true
				skips = append(skips, strconv.FormatInt(idx, 10))
			}
		}(i)
	}
	wg.Wait()
	if len(harnessErrs) > 0 {
		for _, e := range harnessErrs {
			fmt.Fprintln(os.Stderr, "HARNESS ERROR:", e)
		}
		return 2
	}
	m, err := fw.Merge(runDir, n, crashViolations)
	if err != nil {
		fmt.Fprintln(os.Stderr, "HARNESS ERROR:", err)
		return 2
	}
	unreproduced := 0
	for _, nt := range m.Notes {
		if strings.HasPrefix(nt, "HARNESS") {
			fmt.Fprintln(os.Stderr, nt)
			return 2
		}
		if strings.HasPrefix(nt, "UNREPRODUCED") {
			unreproduced++
		}
	}
	// a verdict that did not repeat on re-execution is never reported as a violation; if nothing else was found it
	// is a harness error (exit 2), next to reproducible violations it is only counted
	if unreproduced > 0 && len(m.Violations) == 0 {
		for _, nt := range m.Notes {
			if strings.HasPrefix(nt, "UNREPRODUCED") {
				fmt.Fprintln(os.Stderr, "HARNESS ERROR:", nt)
				break
			}
		}
		return 2
	}

	findings, err := fw.LoadFindings(filepath.Join(*verifDir, "known_findings.txt"))
	if err != nil {
		fmt.Fprintln(os.Stderr, "HARNESS ERROR:", err)
		return 2
	}
	open := map[string]fw.Finding{}
	for _, f := range findings {
		if !f.Fixed && f.Property == c.ID {
			open[f.Sig] = f
		}
	}
	knownSeen := map[string]int64{}
	var unknown []fw.Violation
	for _, v := range m.Violations {
		if _, ok := open[v.Sig]; ok {
			knownSeen[v.Sig] = m.VioCount[v.Sig]
			continue
		}
		unknown = append(unknown, v)
	}
	sigs := make([]string, 0, len(knownSeen))
	for s := range knownSeen {
		sigs = append(sigs, s)
	}
	sort.Strings(sigs)
	for _, s := range sigs {
		fmt.Printf("KNOWN-FINDING: property=%s sig=%s cases=%d :: %s\n", c.ID, s, knownSeen[s], open[s].Text)
	}
	exit := 0
	os.MkdirAll(filepath.Join(*verifDir, "replays"), 0o755)
	reported := map[string]int{}
	for _, v := range unknown {
		reported[v.Sig]++
		if reported[v.Sig] > 2 {
			continue
		}
		rf := replayFile{Property: c.ID, Sig: v.Sig, Detail: v.Detail, Case: v.Case}
		b, _ := json.MarshalIndent(rf, "", " ")
		name := fmt.Sprintf("%s-%016x.json", c.ID, fw.HashBytes(append([]byte(v.Sig), v.Case...)))
		path := filepath.Join(*verifDir, "replays", name)
		os.WriteFile(path, b, 0o644)
		fmt.Printf("violation sig=%s (%d cases)\n%s\n", v.Sig, m.VioCount[v.Sig], v.Detail)
		fmt.Printf("VIOLATION property=%s replay=%s\n", c.ID, path)
		exit = 1
	}

	nUnknown := 0
	seenSig := map[string]bool{}
	for _, v := range unknown {
		if !seenSig[v.Sig] {
			seenSig[v.Sig] = true
			nUnknown += int(m.VioCount[v.Sig])
		}
	}
	cov := map[string]any{
		"evaluations":                   m.Evals,
		"distinct_nontrivial":           m.Nontrivial,
		"rule":                          c.Rule,
		"states":                        m.States,
		"transitions":                   m.Transitions,
		"traces_validated_against_impl": m.Evals,
		"exhaustive":                    !m.Truncated,
		"skipped_out_of_domain":         m.Skipped,
		"workers":                       n,
	}
	samples := make([]any, 0, len(m.Samples))
	for _, s := range m.Samples {
		var v any
		json.Unmarshal(s, &v)
		samples = append(samples, v)
	}
	cov["samples"] = samples
	if c.Bounds != nil {
		cov["bounds"] = c.Bounds(*tier)
	}
	extras := map[string]int64{}
	for k, v := range m.Extras {
		extras[k] = v
	}
	if unreproduced > 0 {
		extras["unreproduced_verdicts"] = int64(unreproduced)
	}
	cov["counters"] = extras
	if len(knownSeen) > 0 {
		cov["known_findings_observed"] = knownSeen
	}
	if c.Assumptions == nil {
		c.Assumptions = []string{}
	}
	if checks.ExportDegraded() {
		c.Assumptions = append(c.Assumptions, "the private-state export overlay did not compile against this /repo tree (its private recorder representation changed): the reflective fallback was used; private lookups (C11) and the retained-bytes oracle (C20) are unavailable in this mode")
	}
	ev := &fw.Evidence{PropertyID: c.ID, Tier: *tier, Seed: seed, Level: c.Level, Coverage: cov, Assumptions: c.Assumptions,
		WallS: time.Since(start).Seconds(), Violations: nUnknown}
	os.MkdirAll(filepath.Join(*verifDir, "evidence"), 0o755)
	if err := fw.WriteEvidence(filepath.Join(*verifDir, "evidence", c.ID+".json"), ev); err != nil {
		fmt.Fprintln(os.Stderr, "HARNESS ERROR:", err)
		return 2
	}
	if exit == 0 && (m.Evals == 0 || m.Nontrivial < 2) {
		fmt.Fprintf(os.Stderr, "HARNESS ERROR: vacuous run (evaluations=%d nontrivial=%d)\n", m.Evals, m.Nontrivial)
		return 2
	}
	fmt.Printf("%s %s: evaluations=%d states=%d transitions=%d nontrivial=%d skipped=%d exhaustive=%v known=%d violations=%d wall=%.1fs\n",
		c.ID, *tier, m.Evals, m.States, m.Transitions, m.Nontrivial, m.Skipped, !m.Truncated, len(knownSeen), nUnknown, time.Since(start).Seconds())
	for _, k := range fw.SortedKeys(extras) {
		fmt.Printf("  %s=%d\n", k, extras[k])
	}
	return exit
}
