// mineslots prints small storage slots s whose data-slot base keccak256(pad32(s)) ends in given byte patterns
// (used by C09 to force carries in the data-slot counter of long strings). The constants in checks/c09.go were
// produced by this program and are re-verified at run time.
package main

import (
	"encoding/binary"
	"fmt"

	"github.com/ethereum/go-ethereum/crypto"
)

func main() {
	want := map[string][]byte{"fd": {0xfd}, "fe": {0xfe}, "ff": {0xff}, "feff": {0xfe, 0xff}, "ffff": {0xff, 0xff}, "fffe": {0xff, 0xfe}, "ffffff": {0xff, 0xff, 0xff}, "fffffe": {0xff, 0xff, 0xfe}}
	found := map[string]uint64{}
	var in [32]byte
	for s := uint64(0); len(found) < len(want); s++ {
		binary.BigEndian.PutUint64(in[24:], s)
		out := crypto.Keccak256(in[:])
		for name, suf := range want {
			if _, ok := found[name]; ok {
				continue
			}
			match := true
			for i := range suf {
				if out[32-len(suf)+i] != suf[i] {
					match = false
				}
			}
			if match {
				found[name] = s
				fmt.Printf("%s slot=%d base=%x\n", name, s, out)
			}
		}
	}
}
