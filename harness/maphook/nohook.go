//go:build !maphook

package maphook

// Enabled reports whether the binary was built with the runtime overlay.
const Enabled = false

func Set(f func() uint64) {}
