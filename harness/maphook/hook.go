//go:build maphook

// Package maphook exposes the map-iteration seam the runtime overlay adds (build tag maphook).
package maphook

import _ "unsafe"

//go:linkname runtimeHook runtime.verifMapIterHook
var runtimeHook func() uint64

// Enabled reports whether the binary was built with the runtime overlay.
const Enabled = true

// Set installs f as the source of iteration start positions (nil: stock random behaviour).
func Set(f func() uint64) { runtimeHook = f }
