package gen

import (
	"verif/asm"
	"verif/world"
)

// Macro is one element of the SEQ alphabet.
type Macro struct {
	Name  string
	Code  func(f world.Fork) []byte
	Jump  bool // forward JUMPI to the epilogue (2 bytes patched)
	Since world.Fork
}

func lit(b ...byte) func(world.Fork) []byte { return func(world.Fork) []byte { return b } }

// SeqAlphabet is the ~26-macro alphabet of interacting instructions.
func SeqAlphabet() []Macro {
	call := asm.New().Push(32).Push(0).Push(32).Push(0).Push(0).PushAddr(CWrite).Push(60000).Op(asm.CALL).Bytes()
	callv := asm.New().Push(32).Push(0).Push(32).Push(0).Push(1).PushAddr(CEcho).Push(60000).Op(asm.CALL).Bytes()
	scall := asm.New().Push(32).Push(32).Push(32).Push(0).PushAddr(CRet).Push(60000).Op(asm.STATICCALL).Bytes()
	dcall := asm.New().Push(32).Push(32).Push(32).Push(0).PushAddr(CWrite).Push(60000).Op(asm.DELEGATECALL).Bytes()
	rcall := asm.New().Push(32).Push(0).Push(0).Push(0).Push(0).PushAddr(CRevert).Push(60000).Op(asm.CALL).Bytes()
	ecs := asm.New().PushAddr(CRet).Op(asm.EXTCODESIZE).Bytes()
	return []Macro{
		{Name: "PUSH1_0", Code: lit(asm.PUSH1, 0)},
		{Name: "PUSH1_1", Code: lit(asm.PUSH1, 1)},
		{Name: "PUSH1_32", Code: lit(asm.PUSH1, 32)},
		{Name: "DUP1", Code: lit(asm.DUP1)},
		{Name: "SWAP1", Code: lit(asm.SWAP1)},
		{Name: "POP", Code: lit(asm.POP)},
		{Name: "ADD", Code: lit(asm.ADD)},
		{Name: "MSTORE", Code: lit(asm.MSTORE)},
		{Name: "MLOAD", Code: lit(asm.MLOAD)},
		{Name: "MSTORE8", Code: lit(asm.MSTORE8)},
		{Name: "SSTORE", Code: lit(asm.SSTORE)},
		{Name: "SLOAD", Code: lit(asm.SLOAD)},
		{Name: "KECCAK256", Code: lit(asm.KECCAK256)},
		{Name: "CALLDATALOAD", Code: lit(asm.CALLDATALOAD)},
		{Name: "CALLDATACOPY", Code: lit(asm.CALLDATACOPY)},
		{Name: "JUMPDEST", Code: lit(asm.JUMPDEST)},
		{Name: "JUMPI_fwd", Code: lit(0x61, 0, 0, asm.JUMPI), Jump: true},
		{Name: "GAS", Code: lit(asm.GAS)},
		{Name: "MSIZE", Code: lit(asm.MSIZE)},
		{Name: "RETURNDATASIZE", Code: lit(asm.RETURNDATASIZE)},
		{Name: "LOG1", Code: lit(asm.LOG1)},
		{Name: "SELFBAL", Code: lit(asm.ADDRESS, asm.BALANCE)},
		{Name: "EXTCODESIZE", Code: func(world.Fork) []byte { return ecs }},
		{Name: "CALL_write", Code: func(world.Fork) []byte { return call }},
		{Name: "CALL_value", Code: func(world.Fork) []byte { return callv }},
		{Name: "CALL_revert", Code: func(world.Fork) []byte { return rcall }},
		{Name: "STATICCALL", Code: func(world.Fork) []byte { return scall }},
		{Name: "DELEGATECALL", Code: func(world.Fork) []byte { return dcall }},
		{Name: "RETURNDATACOPY", Code: lit(asm.RETURNDATACOPY)},
	}
}

// BuildSeq assembles seed ; macros ; epilogue. maxLen is the L of SEQ-L (sizes the sentinel seed so that the
// epilogue can always pop three items when it is reached).
func BuildSeq(f world.Fork, alpha []Macro, seq []int, maxLen int) []byte {
	p := asm.New()
	for i := 0; i < 3*maxLen; i++ {
		p.Push(uint64(0xf1 + i))
	}
	p.Push(64).Push(32).Push(0)
	var patches []int
	for _, m := range seq {
		code := alpha[m].Code(f)
		if alpha[m].Jump {
			patches = append(patches, p.Len()+1)
		}
		p.Op(code...)
	}
	dest := p.Len()
	for _, at := range patches {
		p.B[at] = byte(dest >> 8)
		p.B[at+1] = byte(dest)
	}
	p.Op(asm.JUMPDEST, asm.MSIZE).Push(0x160).Op(asm.MSTORE)
	p.Push(0x100).Op(asm.MSTORE).Push(0x120).Op(asm.MSTORE).Push(0x140).Op(asm.MSTORE)
	if f >= world.Byzantium {
		p.Op(asm.RETURNDATASIZE).Push(0x180).Op(asm.MSTORE)
	}
	p.Push(0x1a0).Push(0).Op(asm.RETURN)
	return p.Bytes()
}

// ForEachSeq enumerates all sequences over an alphabet of n symbols with length 0..L.
func ForEachSeq(n, L int, fn func(seq []int)) {
	var rec func(cur []int)
	rec = func(cur []int) {
		fn(cur)
		if len(cur) == L {
			return
		}
		for i := 0; i < n; i++ {
			rec(append(cur, i))
		}
	}
	rec(make([]int, 0, L))
}

// ForEachSeqLen enumerates all sequences over n symbols of exactly length l.
func ForEachSeqLen(n, l int, fn func(seq []int)) {
	cur := make([]int, l)
	var rec func(i int)
	rec = func(i int) {
		if i == l {
			fn(cur)
			return
		}
		for k := 0; k < n; k++ {
			cur[i] = k
			rec(i + 1)
		}
	}
	rec(0)
}

// BuildBytes wraps a raw byte string as code; seeded prepends seven small pushes so that instructions find
// operands on the stack.
func BuildBytes(raw []byte, seeded bool) []byte {
	p := asm.New()
	if seeded {
		for i := 0; i < 7; i++ {
			p.Push(uint64(i * 8))
		}
	}
	p.Op(raw...)
	return p.Bytes()
}

// BuildSeqIns is BuildSeq with a code prefix (run before the sentinel seed) and a code fragment inserted before
// the macro at position at (at == len(seq): after the last macro). Returns the code and the pc of the fragment.
func BuildSeqIns(f world.Fork, alpha []Macro, seq []int, maxLen int, prefix []byte, at int, ins []byte) ([]byte, int) {
	p := asm.New()
	p.Op(prefix...)
	for i := 0; i < 3*maxLen; i++ {
		p.Push(uint64(0xf1 + i))
	}
	p.Push(64).Push(32).Push(0)
	var patches []int
	insPC := -1
	for i := 0; i <= len(seq); i++ {
		if i == at {
			insPC = p.Len()
			p.Op(ins...)
		}
		if i == len(seq) {
			break
		}
		m := seq[i]
		code := alpha[m].Code(f)
		if alpha[m].Jump {
			patches = append(patches, p.Len()+1)
		}
		p.Op(code...)
	}
	dest := p.Len()
	for _, at := range patches {
		p.B[at] = byte(dest >> 8)
		p.B[at+1] = byte(dest)
	}
	p.Op(asm.JUMPDEST, asm.MSIZE).Push(0x160).Op(asm.MSTORE)
	p.Push(0x100).Op(asm.MSTORE).Push(0x120).Op(asm.MSTORE).Push(0x140).Op(asm.MSTORE)
	if f >= world.Byzantium {
		p.Op(asm.RETURNDATASIZE).Push(0x180).Op(asm.MSTORE)
	}
	p.Push(0x1a0).Push(0).Op(asm.RETURN)
	return p.Bytes(), insPC
}
