package gen

import (
	"math/big"

	"github.com/holiman/uint256"
	"verif/asm"
	"verif/mc"
	"verif/world"
)

type Role byte

const (
	RW  Role = iota // word
	RS              // shift / byte index
	RO              // memory offset
	RL              // memory length
	RA              // address
	RG              // call gas
	RV              // call value
	RK              // storage key
	RJ              // jump destination (resolved to the epilogue's JUMPDEST)
	RB              // block number
	RSm             // small word (stored values, topics, salts)
)

func u(s string) *uint256.Int {
	b, ok := new(big.Int).SetString(s, 0)
	if !ok {
		panic(s)
	}
	v, _ := uint256.FromBig(b)
	return v
}

func pow2(n uint, delta int64) *uint256.Int {
	b := new(big.Int).Lsh(big.NewInt(1), n)
	b.Add(b, big.NewInt(delta))
	if b.Sign() < 0 {
		panic("neg")
	}
	b.And(b, new(big.Int).Sub(new(big.Int).Lsh(big.NewInt(1), 256), big.NewInt(1)))
	v, _ := uint256.FromBig(b)
	return v
}

func addrWord(a [20]byte) *uint256.Int { return new(uint256.Int).SetBytes(a[:]) }

// Alphabets: index 0 is the default value of the role.
var alphabets = map[Role][]*uint256.Int{
	RW:  {uint256.NewInt(2), uint256.NewInt(0), uint256.NewInt(1), uint256.NewInt(0xff), pow2(255, -1), pow2(255, 0), pow2(256, -1), new(uint256.Int).SetBytes(Pattern[:])},
	RS:  {uint256.NewInt(1), uint256.NewInt(0), uint256.NewInt(7), uint256.NewInt(8), uint256.NewInt(31), uint256.NewInt(32), uint256.NewInt(255), uint256.NewInt(256), pow2(64, 0)},
	RO:  {uint256.NewInt(0), uint256.NewInt(1), uint256.NewInt(31), uint256.NewInt(32), uint256.NewInt(33), uint256.NewInt(64), uint256.NewInt(1 << 16), uint256.NewInt(1 << 32), pow2(63, 0), pow2(64, -1), pow2(64, 0), pow2(256, -1)},
	RL:  {uint256.NewInt(32), uint256.NewInt(0), uint256.NewInt(1), uint256.NewInt(31), uint256.NewInt(33), uint256.NewInt(64), uint256.NewInt(1 << 16), uint256.NewInt(1 << 32), pow2(63, 0), pow2(64, -1), pow2(64, 0), pow2(256, -1)},
	RA:  {addrWord(CRet), addrWord(Absent), addrWord(Empty), addrWord(EOA), addrWord(CStop), addrWord(CRevert), addrWord(CInval), addrWord(CLoop), addrWord(CWrite), addrWord(CDie), addrWord(CEcho), addrWord(T), uint256.NewInt(1), uint256.NewInt(2), uint256.NewInt(3), uint256.NewInt(4), uint256.NewInt(5), uint256.NewInt(6), uint256.NewInt(7), uint256.NewInt(8), uint256.NewInt(9), pow2(160, 1)},
	RG:  {uint256.NewInt(100000), uint256.NewInt(0), uint256.NewInt(1), uint256.NewInt(2300), pow2(63, 0), pow2(256, -1), pow2(64, 0), pow2(64, 5), pow2(128, 1)}, // the last three: low 64 bits below any cap, upper bits set
	RV:  {uint256.NewInt(0), uint256.NewInt(1), uint256.NewInt(1000), uint256.NewInt(1001)},
	RK:  {uint256.NewInt(0), uint256.NewInt(1), uint256.NewInt(2), pow2(256, -1)},
	RJ:  {uint256.NewInt(0), uint256.NewInt(1), uint256.NewInt(0xffff)}, // delta to the epilogue JUMPDEST; 0xffff literal
	RB:  {uint256.NewInt(world.BlockNumber - 1), uint256.NewInt(0), uint256.NewInt(world.BlockNumber - 256), uint256.NewInt(world.BlockNumber - 257), uint256.NewInt(world.BlockNumber), pow2(64, 0)},
	RSm: {uint256.NewInt(1), uint256.NewInt(0), u("0x1111111111111111111111111111111111111111111111111111111111111111"), uint256.NewInt(2)},
}

// OpSpec describes the operands of an opcode (top of stack first) and whether it pushes a result.
type OpSpec struct {
	Op     byte
	Roles  []Role
	Pushes bool
	Term   bool // terminates the frame (no epilogue reached)
	Extra  int  // extra stack items needed below the operands (DUP/SWAP)
}

func rs(r ...Role) []Role { return r }

// StdOps is the instruction matrix of standard opcodes (PUSH data bytes are handled separately).
func StdOps() []OpSpec {
	var out []OpSpec
	add := func(op byte, pushes bool, roles ...Role) {
		out = append(out, OpSpec{Op: op, Roles: roles, Pushes: pushes})
	}
	add(asm.STOP, false)
	for _, op := range []byte{asm.ADD, asm.MUL, asm.SUB, asm.DIV, asm.SDIV, asm.MOD, asm.SMOD, asm.EXP, asm.LT, asm.GT, asm.SLT, asm.SGT, asm.EQ, asm.AND, asm.OR, asm.XOR} {
		add(op, true, RW, RW)
	}
	add(asm.ADDMOD, true, RW, RW, RW)
	add(asm.MULMOD, true, RW, RW, RW)
	add(asm.SIGNEXTEND, true, RS, RW)
	add(asm.ISZERO, true, RW)
	add(asm.NOT, true, RW)
	add(asm.BYTE, true, RS, RW)
	add(asm.SHL, true, RS, RW)
	add(asm.SHR, true, RS, RW)
	add(asm.SAR, true, RS, RW)
	add(asm.KECCAK256, true, RO, RL)
	for _, op := range []byte{asm.ADDRESS, asm.ORIGIN, asm.CALLER, asm.CALLVALUE, asm.CALLDATASIZE, asm.CODESIZE, asm.GASPRICE, asm.RETURNDATASIZE, asm.COINBASE, asm.TIMESTAMP, asm.NUMBER, asm.DIFFICULTY, asm.GASLIMIT, asm.CHAINID, asm.SELFBALANCE, asm.BASEFEE, asm.PC, asm.MSIZE, asm.GAS, asm.PUSH0} {
		add(op, true)
	}
	add(asm.JUMPDEST, false)
	add(asm.BALANCE, true, RA)
	add(asm.CALLDATALOAD, true, RO)
	add(asm.CALLDATACOPY, false, RO, RO, RL)
	add(asm.CODECOPY, false, RO, RO, RL)
	add(asm.EXTCODESIZE, true, RA)
	add(asm.EXTCODECOPY, false, RA, RO, RO, RL)
	add(asm.RETURNDATACOPY, false, RO, RO, RL)
	add(asm.EXTCODEHASH, true, RA)
	add(asm.BLOCKHASH, true, RB)
	add(asm.POP, false, RW)
	add(asm.MLOAD, true, RO)
	add(asm.MSTORE, false, RO, RW)
	add(asm.MSTORE8, false, RO, RW)
	add(asm.SLOAD, true, RK)
	add(asm.SSTORE, false, RK, RSm)
	add(asm.JUMP, false, RJ)
	add(asm.JUMPI, false, RJ, RW)
	for n := 0; n < 16; n++ {
		out = append(out, OpSpec{Op: asm.DUP1 + byte(n), Pushes: true, Extra: n + 1})
		out = append(out, OpSpec{Op: asm.SWAP1 + byte(n), Pushes: true, Extra: n + 2})
	}
	for n := 0; n <= 4; n++ {
		roles := []Role{RO, RL}
		for i := 0; i < n; i++ {
			roles = append(roles, RSm)
		}
		out = append(out, OpSpec{Op: asm.LOG0 + byte(n), Roles: roles})
	}
	add(asm.CREATE, true, RV, RO, RL)
	add(asm.CALL, true, RG, RA, RV, RO, RL, RO, RL)
	add(asm.CALLCODE, true, RG, RA, RV, RO, RL, RO, RL)
	out = append(out, OpSpec{Op: asm.RETURN, Roles: rs(RO, RL), Term: true})
	add(asm.DELEGATECALL, true, RG, RA, RO, RL, RO, RL)
	add(asm.CREATE2, true, RV, RO, RL, RSm)
	add(asm.STATICCALL, true, RG, RA, RO, RL, RO, RL)
	out = append(out, OpSpec{Op: asm.REVERT, Roles: rs(RO, RL), Term: true})
	out = append(out, OpSpec{Op: asm.INVALID, Term: true})
	out = append(out, OpSpec{Op: asm.SELFDESTRUCT, Roles: rs(RA), Term: true})
	return out
}

// Shape is a pre-state shape of the frame in which the instruction runs.
type Shape struct {
	MemWords int  // memory pre-expanded with a distinct pattern
	RData    bool // return-data buffer holds 32 bytes (a call to CRet was made)
	Static   bool // frame runs in static context
	Warm     bool // touched slot/address warmed through the access list
}

func (s Shape) ID() int {
	id := s.MemWords
	if s.RData {
		id |= 8
	}
	if s.Static {
		id |= 16
	}
	if s.Warm {
		id |= 32
	}
	return id
}

// Shapes returns the shape alphabet; quick uses a sub-alphabet.
func Shapes(full bool) []Shape {
	var out []Shape
	mems := []int{0, 3}
	if full {
		mems = []int{0, 1, 3}
	}
	for _, m := range mems {
		for _, rd := range []bool{false, true} {
			for _, st := range []bool{false, true} {
				out = append(out, Shape{MemWords: m, RData: rd, Static: st})
			}
		}
	}
	return out
}

// prologue establishes the shape.
func prologue(f world.Fork, s Shape) *asm.P {
	p := asm.New()
	if s.RData && f >= world.Byzantium {
		// CALL(gas=50000, CRet, 0, 0,0, 0,0) ; POP   (STATICCALL-safe: value 0)
		if s.Static {
			// inside a static frame the buffer is filled by a nested STATICCALL
			p.Push(0).Push(0).Push(0).Push(0).PushAddr(CRet).Push(50000).Op(asm.STATICCALL, asm.POP)
		} else {
			p.Push(0).Push(0).Push(0).Push(0).Push(0).PushAddr(CRet).Push(50000).Op(asm.CALL, asm.POP)
		}
	}
	for i := 0; i < s.MemWords; i++ {
		h := Pattern
		h[0] = byte(0xa0 + i)
		p.Push32(h).Push(uint64(32 * i)).Op(asm.MSTORE)
	}
	return p
}

// BuildIM assembles prologue ; pushes ; OP ; epilogue for an operand tuple (top of stack first).
func BuildIM(f world.Fork, spec OpSpec, s Shape, operands []*uint256.Int) []byte {
	p := prologue(f, s)
	for i := 0; i < spec.Extra; i++ {
		p.Push(uint64(0x30 + i))
	}
	// jump destinations need the final layout: operands of role RJ are patched after assembly
	jpos := -1
	jdelta := 0
	for i := len(operands) - 1; i >= 0; i-- {
		if spec.Roles[i] == RJ {
			p.Op(0x61, 0, 0) // PUSH2 placeholder
			jpos = p.Len() - 2
			jdelta = int(operands[i].Uint64())
		} else {
			p.PushU(operands[i])
		}
	}
	p.Op(spec.Op)
	if spec.Op == asm.JUMP || spec.Op == asm.JUMPI {
		p.Op(asm.INVALID) // skipped by a taken jump
	}
	dest := p.Len()
	p.Op(asm.JUMPDEST)
	if jpos >= 0 {
		d := dest + jdelta
		if jdelta >= 0xff00 {
			d = jdelta
		}
		p.B[jpos] = byte(d >> 8)
		p.B[jpos+1] = byte(d)
	}
	p.Op(asm.MSIZE).Push(0xa0).Op(asm.MSTORE)
	if spec.Pushes {
		p.Push(0x80).Op(asm.MSTORE)
	}
	if f >= world.Byzantium {
		p.Op(asm.RETURNDATASIZE).Push(0xc0).Op(asm.MSTORE)
	}
	p.Push(0xe0).Push(0).Op(asm.RETURN)
	return p.Bytes()
}

// ExploreOperands enumerates operand tuples of spec with at most bound non-default operands (all tuples if
// bound >= arity) and calls fn with each.
func ExploreOperands(spec OpSpec, bound int, fn func(ops []*uint256.Int, choice []int)) mc.Stats {
	return mc.Explore(bound, func(c *mc.Ctx) {
		ops := make([]*uint256.Int, len(spec.Roles))
		for i, r := range spec.Roles {
			al := alphabets[r]
			ops[i] = al[c.Deviate(len(al))]
		}
		fn(ops, c.Choices())
	}, nil)
}
