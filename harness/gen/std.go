// Package gen holds the case languages shared by the checks: the standard world, the instruction matrix (IM),
// instruction sequences (SEQ-L) and byte programs (BYTES-n).
package gen

import (
	"math/big"

	"github.com/ethereum/go-ethereum/common"
	"github.com/ethereum/go-ethereum/common/hexutil"
	"verif/asm"
	"verif/world"
)

// Addresses of the standard world.
var (
	T       = world.ContractAddr(0) // program under test
	CRet    = world.ContractAddr(1) // returns 32 bytes
	CRevert = world.ContractAddr(2) // reverts with 32 bytes
	CInval  = world.ContractAddr(3) // INVALID
	CLoop   = world.ContractAddr(4) // loops until out of gas
	CStop   = world.ContractAddr(5) // STOP
	CWrite  = world.ContractAddr(6) // SSTORE + LOG1 + return 32 bytes
	CDie    = world.ContractAddr(7) // SELFDESTRUCT to origin
	CEcho   = world.ContractAddr(8) // returns its calldata (first 64 bytes) and CALLVALUE
	EOA     = common.HexToAddress("0x0000000000000000000000000000000000e0a001")
	Empty   = common.HexToAddress("0x0000000000000000000000000000000000e0a002") // exists, empty
	Absent  = common.HexToAddress("0x0000000000000000000000000000000000ab5e17")
	Pattern = common.HexToHash("0x0102030405060708090a0b0c0d0e0f101112131415161718191a1b1c1d1e1f20")
)

func ret32(v byte) []byte {
	// PUSH32 v.. ; PUSH1 0; MSTORE; PUSH1 32; PUSH1 0; RETURN
	var h common.Hash
	for i := range h {
		h[i] = v + byte(i)
	}
	return asm.New().Push32(h).Push(0).Op(asm.MSTORE).Push(32).Push(0).Op(asm.RETURN).Bytes()
}

// StdAccounts returns the pre-state of the standard world with code as the program under test.
func StdAccounts(code []byte) []world.Account {
	one := new(big.Int).Exp(big.NewInt(10), big.NewInt(18), nil)
	revert := asm.New().Push32(common.HexToHash("0xdeadbeef00000000000000000000000000000000000000000000000000c0ffee")).Push(0).Op(asm.MSTORE).Push(32).Push(0).Op(asm.REVERT).Bytes()
	// each iteration burns ~1.6k gas (EXP with a 32-byte exponent) so that running a frame dry takes few steps
	loop := asm.New().Op(asm.JUMPDEST).Push32(common.HexToHash("0xffffffffffffffffffffffffffffffffffffffffffffffffffffffffffffffff")).Push(3).Op(asm.EXP, asm.POP).Push(0).Op(asm.JUMP).Bytes()
	write := asm.New().Push(0x77).Push(3).Op(asm.SSTORE).Push(0xaa).Push(0).Push(0).Op(asm.LOG1).Append(&asm.P{B: ret32(0x40)}).Bytes()
	die := asm.New().PushAddr(world.Origin).Op(asm.SELFDESTRUCT).Bytes()
	echo := asm.New().Push(64).Push(0).Push(0).Op(asm.CALLDATACOPY).Op(asm.CALLVALUE).Push(64).Op(asm.MSTORE).Push(96).Push(0).Op(asm.RETURN).Bytes()
	return []world.Account{
		{Addr: world.Origin, Balance: (*hexutil.Big)(one), Nonce: 5},
		{Addr: T, Balance: world.Big(1000), Nonce: 1, Code: code, Storage: map[common.Hash]common.Hash{
			{}:                      common.HexToHash("0x1111111111111111111111111111111111111111111111111111111111111111"),
			common.HexToHash("0x1"): common.HexToHash("0x1"),
		}},
		{Addr: CRet, Nonce: 1, Code: ret32(0x2a)},
		{Addr: CRevert, Nonce: 1, Code: revert},
		{Addr: CInval, Nonce: 1, Code: []byte{asm.INVALID}},
		{Addr: CLoop, Nonce: 1, Code: loop},
		{Addr: CStop, Nonce: 1, Code: []byte{asm.STOP}},
		{Addr: CWrite, Balance: world.Big(5), Nonce: 1, Code: write},
		{Addr: CDie, Balance: world.Big(9), Nonce: 1, Code: die},
		{Addr: CEcho, Nonce: 1, Code: echo},
		{Addr: EOA, Balance: world.Big(12345)},
		{Addr: Empty},
	}
}

// StdCase wraps a program into a top-level call case on the standard world.
func StdCase(f world.Fork, code []byte, entry string, gas uint64) *world.Case {
	c := &world.Case{Fork: f, ForkName: f.String(), Accounts: StdAccounts(code), Entry: entry, From: world.Origin, To: T,
		Input: common.FromHex("0xa1a2a3a4a5a6a7a8a9aaabacadaeafb0b1b2b3b4b5b6b7b8b9babbbcbdbebfc0c1c2c3c4"), Gas: gas}
	return c
}

// IsArtelaOp reports whether b is a journal opcode (never part of a "standard" program).
func IsArtelaOp(b byte) bool { return b >= 0xe0 && b <= 0xe7 }

// HasArtelaOp scans code (skipping PUSH data) for journal opcodes.
func HasArtelaOp(code []byte) bool {
	for i := 0; i < len(code); i++ {
		b := code[i]
		if IsArtelaOp(b) {
			return true
		}
		if b >= 0x60 && b <= 0x7f {
			i += int(b - 0x5f)
		}
	}
	return false
}
