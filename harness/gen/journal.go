package gen

import (
	"fmt"

	"github.com/ethereum/go-ethereum/common"
	"github.com/holiman/uint256"
	"verif/asm"
	"verif/world"
)

// Journal opcodes: operand roles, top of stack first (the order in which the instruction pops them).
type JRole byte

const (
	JPtr    JRole = iota // memory pointer to a (length word, data) string
	JSlot                // storage slot of the key itself
	JBase                // storage slot of the parent key
	JOff                 // byte offset inside the slot
	JWidth               // type size in bytes
	JType                // type id
	JPType               // parent type id
	JKeyVal              // value-typed index key
)

type JOp struct {
	Op    byte
	Name  string
	Roles []JRole
}

var JOps = []JOp{
	{asm.RSVJNAL, "RSVJNAL", []JRole{JPtr, JSlot, JType}},
	{asm.VSVJNAL, "VSVJNAL", []JRole{JPtr, JSlot, JOff, JType}},
	{asm.IRVVJNAL, "IRVVJNAL", []JRole{JBase, JSlot, JPtr, JOff, JType, JPType}},
	{asm.IRVRJNAL, "IRVRJNAL", []JRole{JBase, JSlot, JPtr, JType, JPType}},
	{asm.IVVVJNAL, "IVVVJNAL", []JRole{JBase, JSlot, JKeyVal, JOff, JType, JPType}},
	{asm.IVVRJNAL, "IVVRJNAL", []JRole{JBase, JSlot, JKeyVal, JType, JPType}},
	{asm.VVJNAL, "VVJNAL", []JRole{JSlot, JOff, JWidth, JType}},
	{asm.VRJNAL, "VRJNAL", []JRole{JSlot, JType}},
}

func JOpByByte(b byte) *JOp {
	for i := range JOps {
		if JOps[i].Op == b {
			return &JOps[i]
		}
	}
	return nil
}

// JBoundary is the boundary alphabet J of DESIGN.md §4 C03(b) for pointer/offset/width/length roles.
// Index 0 is not special; callers choose their own defaults.
var JBoundary = []*uint256.Int{
	uint256.NewInt(0), uint256.NewInt(1), uint256.NewInt(31), uint256.NewInt(32), uint256.NewInt(33), uint256.NewInt(64),
	uint256.NewInt(1 << 16), uint256.NewInt(1 << 31), uint256.NewInt(1 << 32), uint256.NewInt(1 << 40), pow2(63, -1), pow2(63, 0),
	pow2(64, -33), pow2(64, -32), pow2(64, -1), pow2(64, 0), pow2(255, 0), pow2(256, -1),
}

// JBoundaryQuick is the 11-element sub-alphabet used by quick tiers (2^64-1 and 2^64-32 make uint64 sums with the
// small values wrap).
var JBoundaryQuick = []*uint256.Int{
	uint256.NewInt(0), uint256.NewInt(1), uint256.NewInt(31), uint256.NewInt(32), uint256.NewInt(33),
	uint256.NewInt(1 << 40), pow2(63, 0), pow2(64, -32), pow2(64, -1), pow2(64, 0), pow2(256, -1),
}

// Type ids used by the journal case languages.
var (
	TypeA = common.HexToHash("0xaa00000000000000000000000000000000000000000000000000000000000001")
	TypeB = common.HexToHash("0xbb00000000000000000000000000000000000000000000000000000000000002")
)

// MemWrite is one MSTORE of the prologue.
type MemWrite struct {
	Off  uint64
	Word common.Hash
}

// JStep is one journal instruction with its operands (top of stack first).
type JStep struct {
	Op       byte
	Operands []*uint256.Int
}

// JProgram describes a program around journal instructions: memory set-up, a sequence of journal steps and an
// epilogue that returns the word 1 (so that "the frame completed" is observable).
type JProgram struct {
	Mem   []MemWrite
	Steps []JStep
}

func (p *JProgram) emitMem(a *asm.P) {
	for _, w := range p.Mem {
		a.Push32(w.Word).Push(w.Off).Op(asm.MSTORE)
	}
}

func emitStep(a *asm.P, s JStep) {
	for i := len(s.Operands) - 1; i >= 0; i-- {
		a.PushU(s.Operands[i])
	}
	a.Op(s.Op)
}

// Code assembles the program.
func (p *JProgram) Code() []byte {
	a := asm.New()
	p.emitMem(a)
	for _, s := range p.Steps {
		emitStep(a, s)
	}
	// epilogue: return 1
	a.Push(1).Push(0).Op(asm.MSTORE).Push(32).Push(0).Op(asm.RETURN)
	return a.Bytes()
}

// StrWords encodes a (length, data) memory string at off: the length word followed by the data words.
func StrWords(off uint64, s []byte) []MemWrite {
	out := []MemWrite{{off, common.BigToHash(uint256.NewInt(uint64(len(s))).ToBig())}}
	for i := 0; i < len(s); i += 32 {
		var w common.Hash
		copy(w[:], s[i:])
		out = append(out, MemWrite{off + 32 + uint64(i), w})
	}
	return out
}

// RegisterValueVar returns the step registering a top-level value-typed variable whose name string sits at
// memory pointer ptr.
func RegisterValueVar(ptr uint64, slot *uint256.Int, off uint64, typ common.Hash) JStep {
	return JStep{asm.VSVJNAL, []*uint256.Int{uint256.NewInt(ptr), slot, uint256.NewInt(off), new(uint256.Int).SetBytes(typ[:])}}
}

// RegisterRefVar returns the step registering a top-level reference-typed variable.
func RegisterRefVar(ptr uint64, slot *uint256.Int, typ common.Hash) JStep {
	return JStep{asm.RSVJNAL, []*uint256.Int{uint256.NewInt(ptr), slot, new(uint256.Int).SetBytes(typ[:])}}
}

func ValueJournal(slot *uint256.Int, off, width *uint256.Int, typ common.Hash) JStep {
	return JStep{asm.VVJNAL, []*uint256.Int{slot, off, width, new(uint256.Int).SetBytes(typ[:])}}
}

func RefJournal(slot *uint256.Int, typ common.Hash) JStep {
	return JStep{asm.VRJNAL, []*uint256.Int{slot, new(uint256.Int).SetBytes(typ[:])}}
}

// JCase wraps a journal program into a world case: T runs the program with the given pre-state storage.
func JCase(f world.Fork, code []byte, storage map[common.Hash]common.Hash, static bool, gas uint64) *world.Case {
	entry := "call"
	if static {
		entry = "staticcall"
	}
	cs := StdCase(f, code, entry, gas)
	if storage != nil {
		cs.Accounts[1].Storage = storage
	}
	return cs
}

func (s JStep) String() string {
	out := fmt.Sprintf("%#x(", s.Op)
	for i, o := range s.Operands {
		if i > 0 {
			out += ","
		}
		out += o.Hex()
	}
	return out + ")"
}

// Body assembles memory set-up and steps without an epilogue.
func (p *JProgram) Body() []byte {
	a := asm.New()
	p.emitMem(a)
	for _, s := range p.Steps {
		emitStep(a, s)
	}
	return a.Bytes()
}

// StepCode assembles the operand pushes and the instruction of one step; StepPops assembles the same pushes followed
// by one POP per operand. StepCode is padded with JUMPDESTs (1 gas no-ops) to the length of StepPops so that both
// variants of a program have identical layout.
func StepCode(s JStep) []byte {
	a := asm.New()
	emitStep(a, s)
	for i := 1; i < len(s.Operands); i++ {
		a.Op(asm.JUMPDEST)
	}
	return a.Bytes()
}

func StepPops(s JStep) []byte {
	a := asm.New()
	for i := len(s.Operands) - 1; i >= 0; i-- {
		a.PushU(s.Operands[i])
	}
	for range s.Operands {
		a.Op(asm.POP)
	}
	return a.Bytes()
}
