package gen

import (
	"math/big"

	"github.com/ethereum/go-ethereum/common"
	"github.com/ethereum/go-ethereum/crypto"
	"github.com/holiman/uint256"
)

// Solidity storage layout: encoder (for building pre-states) and reference decoder (oracle of C09/C10).

func slotHash(slot *uint256.Int) common.Hash { return common.Hash(slot.Bytes32()) }

// DataSlot returns keccak256(pad32(slot)) + i, the position of the i-th data word of a long string at slot.
func DataSlot(slot *uint256.Int, i uint64) common.Hash {
	b := slot.Bytes32()
	h := crypto.Keccak256(b[:])
	v := new(uint256.Int).SetBytes(h)
	v.Add(v, uint256.NewInt(i))
	return common.Hash(v.Bytes32())
}

// EncodeString returns the storage words of a bytes/string value at slot.
func EncodeString(slot *uint256.Int, data []byte) map[common.Hash]common.Hash {
	out := map[common.Hash]common.Hash{}
	if len(data) < 32 {
		var w common.Hash
		copy(w[:], data)
		w[31] = byte(2 * len(data))
		out[slotHash(slot)] = w
		return out
	}
	out[slotHash(slot)] = common.BigToHash(big.NewInt(int64(2*len(data) + 1)))
	for i := 0; i < len(data); i += 32 {
		var w common.Hash
		copy(w[:], data[i:])
		out[DataSlot(slot, uint64(i/32))] = w
	}
	return out
}

// StringLen decodes the head word of a bytes/string per solc's extract_byte_array_length. valid=false for the
// encodings solc rejects (short form with length >= 32, long form with length < 32).
func StringLen(head common.Hash) (length *big.Int, long bool, valid bool) {
	v := new(big.Int).SetBytes(head[:])
	long = v.Bit(0) == 1
	length = new(big.Int).Rsh(v, 1)
	if !long {
		length.And(length, big.NewInt(0x7f))
	}
	less := length.Cmp(big.NewInt(32)) < 0
	if long == less {
		return length, long, false
	}
	return length, long, true
}

// DecodeString is the reference decoder: content of the bytes/string stored at slot. maxLen bounds the length
// the decoder is willing to materialise (ok=false, tooLong=true beyond it).
func DecodeString(get func(common.Hash) common.Hash, slot *uint256.Int, maxLen int64) (data []byte, valid bool, tooLong bool) {
	head := get(slotHash(slot))
	l, long, ok := StringLen(head)
	if !ok {
		return nil, false, false
	}
	if !long {
		return append([]byte{}, head[:l.Int64()]...), true, false
	}
	if !l.IsInt64() || l.Int64() > maxLen {
		return nil, true, true
	}
	n := l.Int64()
	for i := int64(0); i < n; i += 32 {
		w := get(DataSlot(slot, uint64(i/32)))
		data = append(data, w[:]...)
	}
	return data[:n], true, false
}

// PackedField is the reference for the value journal: bytes word[32-off-width : 32-off]; ok=false if the
// (offset, width) pair does not denote a field inside the word.
func PackedField(word common.Hash, off, width *big.Int) ([]byte, bool) {
	if off.Sign() < 0 || width.Sign() < 0 || off.Cmp(big.NewInt(31)) > 0 || width.Cmp(big.NewInt(32)) > 0 {
		return nil, false
	}
	o, w := int(off.Int64()), int(width.Int64())
	if o+w > 32 {
		return nil, false
	}
	return append([]byte{}, word[32-o-w:32-o]...), true
}
