package gen

import (
	"math/big"

	"github.com/ethereum/go-ethereum/common"
	"github.com/holiman/uint256"
	"verif/asm"
	"verif/mc"
	"verif/world"
)

// Case language for the Artela precompiles 0x64 (context read), 0x65 (user-op sender), 0x66 (context write):
// target x reach x payload x host answer x fork x gas (DESIGN.md §4 C03(c), C14).

var (
	U  = world.ContractAddr(20) // second forwarder (reach from depth 2)
	T2 = world.ContractAddr(21) // alternative first forwarder (histories with distinct callers)
	U2 = world.ContractAddr(22) // alternative second forwarder
)

// Reach describes how the payload gets to the precompile.
type Reach struct {
	Host  bool   // host entry point directly on the precompile address
	Kind  string // call callcode delegatecall staticcall
	Depth int    // 1: T -> precompile, 2: T -CALL-> U -> precompile (opcode reaches only)
}

func (r Reach) String() string {
	if r.Host {
		return "host:" + r.Kind
	}
	return "op" + string(rune('0'+r.Depth)) + ":" + r.Kind
}

func Reaches() []Reach {
	var out []Reach
	for _, k := range []string{"call", "callcode", "delegatecall", "staticcall"} {
		out = append(out, Reach{Host: false, Kind: k, Depth: 1}, Reach{Host: false, Kind: k, Depth: 2}, Reach{Host: true, Kind: k})
	}
	return out
}

func kindOp(kind string) byte {
	switch kind {
	case "call":
		return asm.CALL
	case "callcode":
		return asm.CALLCODE
	case "delegatecall":
		return asm.DELEGATECALL
	case "staticcall":
		return asm.STATICCALL
	}
	panic(kind)
}

// Forwarder assembles a contract that forwards its calldata to target with the given call kind and returns
// success flag (32 bytes) ++ return data of the call.
func Forwarder(kind string, target common.Address) []byte {
	p := asm.New()
	p.Op(asm.CALLDATASIZE).Push(0).Push(0).Op(asm.CALLDATACOPY)
	p.Push(0).Push(0).Op(asm.CALLDATASIZE).Push(0)
	if kind == "call" || kind == "callcode" {
		p.Push(0)
	}
	p.PushAddr(target).Op(asm.GAS).Op(kindOp(kind))
	// stack: flag
	p.Op(asm.RETURNDATASIZE).Push(0).Push(32).Op(asm.RETURNDATACOPY)
	p.Push(0).Op(asm.MSTORE)
	p.Op(asm.RETURNDATASIZE).Push(32).Op(asm.ADD).Push(0).Op(asm.RETURN)
	return p.Bytes()
}

func PrecompileAddr(b byte) common.Address { return common.BytesToAddress([]byte{b}) }

// PrecompileCase builds the world case. The world always contains both forwarder pairs (T, U) and (T2, U2) for
// this target and kind; alt selects the second pair as the entry, so that two cases on one world have distinct
// callers. Returns the case and the address of the contract whose call reaches the precompile.
func PrecompileCase(f world.Fork, target byte, r Reach, payload []byte, gas uint64, alt bool) (*world.Case, common.Address) {
	pa := PrecompileAddr(target)
	cs := StdCase(f, nil, "call", gas)
	d1 := Forwarder(r.Kind, pa)
	cs.Accounts[1].Code = d1
	if r.Depth == 2 {
		cs.Accounts[1].Code = Forwarder("call", U)
	}
	cs.Accounts = append(cs.Accounts,
		world.Account{Addr: U, Nonce: 1, Code: d1},
		world.Account{Addr: T2, Nonce: 1, Code: d1},
		world.Account{Addr: U2, Nonce: 1, Code: d1})
	if r.Depth == 2 {
		cs.Accounts[len(cs.Accounts)-2].Code = Forwarder("call", U2)
	}
	cs.Input = payload
	if r.Host {
		cs.Entry = r.Kind
		cs.To = pa
		if alt {
			cs.From = EOA
		}
		return cs, cs.From
	}
	first, second := T, U
	if alt {
		first, second = T2, U2
		cs.To = T2
	}
	if r.Depth == 2 {
		return cs, second
	}
	return cs, first
}

// PayloadLengths of DESIGN.md §4 C03(c).
var PayloadLengths = []int{0, 1, 19, 20, 21, 31, 32, 33, 63, 64, 65, 95, 96, 127, 128, 129, 160, 192, 256, 320}

// PatternBytes returns n distinct-looking bytes.
func PatternBytes(n int) []byte {
	b := make([]byte, n)
	for i := range b {
		b[i] = byte(0x41 + i%53)
	}
	return b
}

func pad32(n int) int { return (n + 31) / 32 * 32 }

func word(v *big.Int) []byte {
	var h common.Hash
	v.FillBytes(h[:])
	return h[:]
}

// abiAlphabet returns the deviation alphabet of an ABI head/length word for a payload of length n.
func abiAlphabet(n int) []*big.Int {
	b := func(v int64) *big.Int { return big.NewInt(v) }
	p := func(e uint, d int64) *big.Int { return pow2(e, d).ToBig() }
	out := []*big.Int{b(0), b(32), b(64), b(96), p(63, 0), p(64, -33), p(64, -32), p(64, -1), p(64, 0), p(256, -1)}
	for _, v := range []int{n - 64, n - 32, n - 31, n} {
		if v >= 0 {
			out = append(out, b(int64(v)))
		}
	}
	return out
}

// ExplorePayload66 resolves an ABI (bytes,bytes) payload of length n: a canonical well-formed layout with each of
// the two head words and the two length words open to a deviation from abiAlphabet(n).
func ExplorePayload66(c *mc.Ctx, n int) []byte {
	payload := PatternBytes(n)
	put := func(at *big.Int, w []byte) {
		if !at.IsInt64() {
			return
		}
		a := int(at.Int64())
		if a < 0 || a+32 > n {
			return
		}
		copy(payload[a:a+32], w)
	}
	klen := 0
	if n-128 >= 32 {
		klen = 5
	}
	head0 := big.NewInt(64)
	head1 := big.NewInt(int64(96 + pad32(klen)))
	len0 := big.NewInt(int64(klen))
	vlen := n - int(head1.Int64()) - 32
	if vlen < 0 {
		vlen = 0
	}
	len1 := big.NewInt(int64(vlen))
	al := abiAlphabet(n)
	pick := func(def *big.Int, extra ...int) *big.Int {
		opts := al
		for _, e := range extra {
			if e >= 0 {
				opts = append(append([]*big.Int{}, opts...), big.NewInt(int64(e)))
			}
		}
		if i := c.Deviate(len(opts) + 1); i > 0 {
			return opts[i-1]
		}
		return def
	}
	head0 = pick(head0)
	head1 = pick(head1)
	// length words also get the exact end of the payload and one byte beyond it / short of it
	len0 = pick(len0, n-96, n-96+1)
	len1 = pick(len1, vlen+1, vlen-1)
	put(big.NewInt(0), word(head0))
	put(big.NewInt(32), word(head1))
	put(head0, word(len0))
	put(head1, word(len1))
	return payload
}

// DecodeBytes2 is the reference ABI (bytes,bytes) decoder with unbounded integers: it accepts exactly the
// payloads in which both head words and both (length, data) regions lie inside the payload.
func DecodeBytes2(payload []byte) (key, value []byte, ok bool) {
	n := big.NewInt(int64(len(payload)))
	one := func(index int) ([]byte, bool) {
		lo := index * 32
		if len(payload) < lo+32 {
			return nil, false
		}
		off := new(big.Int).SetBytes(payload[lo : lo+32])
		start := new(big.Int).Add(off, big.NewInt(32))
		if start.Cmp(n) > 0 {
			return nil, false
		}
		o := int(off.Int64())
		l := new(big.Int).SetBytes(payload[o : o+32])
		end := new(big.Int).Add(start, l)
		if end.Cmp(n) > 0 {
			return nil, false
		}
		return payload[o+32 : int(end.Int64())], true
	}
	k, ok1 := one(0)
	if !ok1 {
		return nil, nil, false
	}
	v, ok2 := one(1)
	if !ok2 {
		return nil, nil, false
	}
	return k, v, true
}

var _ = uint256.NewInt
