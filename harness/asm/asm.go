// Package asm is a tiny EVM assembler for generated programs.
package asm

import (
	"math/big"

	"github.com/ethereum/go-ethereum/common"
	"github.com/holiman/uint256"
)

type P struct{ B []byte }

func New() *P { return &P{} }

func (p *P) Op(ops ...byte) *P { p.B = append(p.B, ops...); return p }

// PushBytes pushes a big-endian value with the shortest PUSHn (PUSH1 0 for zero).
func (p *P) PushBytes(b []byte) *P {
	for len(b) > 1 && b[0] == 0 {
		b = b[1:]
	}
	if len(b) == 0 {
		b = []byte{0}
	}
	if len(b) > 32 {
		panic("push too long")
	}
	p.B = append(p.B, 0x5f+byte(len(b)))
	p.B = append(p.B, b...)
	return p
}

func (p *P) Push(v uint64) *P { return p.PushBytes(new(big.Int).SetUint64(v).Bytes()) }

func (p *P) PushU(v *uint256.Int) *P { return p.PushBytes(v.Bytes()) }

func (p *P) PushBig(v *big.Int) *P { return p.PushBytes(v.Bytes()) }

func (p *P) PushAddr(a common.Address) *P { return p.PushBytes(a[:]) }

// Push32 pushes exactly 32 bytes (PUSH32), keeping leading zeros in code.
func (p *P) Push32(h common.Hash) *P {
	p.B = append(p.B, 0x7f)
	p.B = append(p.B, h[:]...)
	return p
}

// Mstore emits PUSH val PUSH off MSTORE.
func (p *P) Mstore(off uint64, val []byte) *P {
	return p.PushBytes(val).Push(off).Op(0x52)
}

func (p *P) Bytes() []byte { return append([]byte{}, p.B...) }

func (p *P) Len() int { return len(p.B) }

func (p *P) Append(q *P) *P { p.B = append(p.B, q.B...); return p }

const (
	STOP           = 0x00
	ADD            = 0x01
	MUL            = 0x02
	SUB            = 0x03
	DIV            = 0x04
	SDIV           = 0x05
	MOD            = 0x06
	SMOD           = 0x07
	ADDMOD         = 0x08
	MULMOD         = 0x09
	EXP            = 0x0a
	SIGNEXTEND     = 0x0b
	LT             = 0x10
	GT             = 0x11
	SLT            = 0x12
	SGT            = 0x13
	EQ             = 0x14
	ISZERO         = 0x15
	AND            = 0x16
	OR             = 0x17
	XOR            = 0x18
	NOT            = 0x19
	BYTE           = 0x1a
	SHL            = 0x1b
	SHR            = 0x1c
	SAR            = 0x1d
	KECCAK256      = 0x20
	ADDRESS        = 0x30
	BALANCE        = 0x31
	ORIGIN         = 0x32
	CALLER         = 0x33
	CALLVALUE      = 0x34
	CALLDATALOAD   = 0x35
	CALLDATASIZE   = 0x36
	CALLDATACOPY   = 0x37
	CODESIZE       = 0x38
	CODECOPY       = 0x39
	GASPRICE       = 0x3a
	EXTCODESIZE    = 0x3b
	EXTCODECOPY    = 0x3c
	RETURNDATASIZE = 0x3d
	RETURNDATACOPY = 0x3e
	EXTCODEHASH    = 0x3f
	BLOCKHASH      = 0x40
	COINBASE       = 0x41
	TIMESTAMP      = 0x42
	NUMBER         = 0x43
	DIFFICULTY     = 0x44
	GASLIMIT       = 0x45
	CHAINID        = 0x46
	SELFBALANCE    = 0x47
	BASEFEE        = 0x48
	POP            = 0x50
	MLOAD          = 0x51
	MSTORE         = 0x52
	MSTORE8        = 0x53
	SLOAD          = 0x54
	SSTORE         = 0x55
	JUMP           = 0x56
	JUMPI          = 0x57
	PC             = 0x58
	MSIZE          = 0x59
	GAS            = 0x5a
	JUMPDEST       = 0x5b
	TLOAD          = 0x5c
	TSTORE         = 0x5d
	MCOPY          = 0x5e
	PUSH0          = 0x5f
	PUSH1          = 0x60
	PUSH32         = 0x7f
	DUP1           = 0x80
	DUP2           = 0x81
	DUP3           = 0x82
	DUP4           = 0x83
	DUP5           = 0x84
	DUP6           = 0x85
	DUP7           = 0x86
	SWAP1          = 0x90
	SWAP2          = 0x91
	SWAP3          = 0x92
	LOG0           = 0xa0
	LOG1           = 0xa1
	LOG2           = 0xa2
	LOG3           = 0xa3
	LOG4           = 0xa4
	RSVJNAL        = 0xe0
	VSVJNAL        = 0xe1
	IRVVJNAL       = 0xe2
	IRVRJNAL       = 0xe3
	IVVVJNAL       = 0xe4
	IVVRJNAL       = 0xe5
	VVJNAL         = 0xe6
	VRJNAL         = 0xe7
	CREATE         = 0xf0
	CALL           = 0xf1
	CALLCODE       = 0xf2
	RETURN         = 0xf3
	DELEGATECALL   = 0xf4
	CREATE2        = 0xf5
	STATICCALL     = 0xfa
	REVERT         = 0xfd
	INVALID        = 0xfe
	SELFDESTRUCT   = 0xff
)
