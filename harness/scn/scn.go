// Package scn is the scenario language of DESIGN.md §4.0 (SCN-d): call trees of small frames with observable
// effects, compiled to contracts, together with a reference interpreter of the scenario AST (model.go) and a
// runner that executes the compiled scenario on /repo's EVM with a scripted Aspect runtime (run.go).
package scn

import (
	"fmt"
	"math/big"

	"github.com/ethereum/go-ethereum/common"
	"github.com/ethereum/go-ethereum/common/hexutil"
	"github.com/ethereum/go-ethereum/crypto"
	"github.com/holiman/uint256"
	"verif/asm"
	"verif/gen"
	"verif/mc"
	"verif/world"
)

type Effect int

const (
	ENone Effect = iota
	ESstore
	ELog
	EJournal    // register + SSTORE a + journal
	EJournalAA  // register, SSTORE a, journal, journal (repeat collapses)
	EJournalABA // register, SSTORE a, journal, SSTORE b, journal, SSTORE a, journal
	// EJournalRef: register a reference-typed variable, store a 40-byte string (out of place: head word + two data
	// words), journal it, change its first data word, journal, change it back, journal (long values a, b, a)
	EJournalRef
	// ECallLeaf: one more call attempt by the same frame - a zero-value CALL with empty calldata to the code-less
	// account (as a Post effect: a second call issued after the frame's first one has returned or failed)
	ECallLeaf
	NumEffects
)

type Term int

const (
	TStop Term = iota
	TReturn
	TRevert
	TInvalid
	TUnderflow
	TOOG
	TSelfdestruct
	TReturnEF  // RETURN 32 bytes starting with 0xEF (rejected as contract code from London on)
	TReturnBig // RETURN 24577 zero bytes (one more than the maximum code size)
	NumTerms
)

var termNames = [...]string{"STOP", "RETURN", "REVERT", "INVALID", "UNDERFLOW", "OOG", "SELFDESTRUCT", "RETURN_EF", "RETURN_BIG"}

// BigLen is the length returned by TReturnBig.
const BigLen = 24577

type Kind int

const (
	KCall Kind = iota
	KCallCode
	KDelegateCall
	KStaticCall
	KCreate
	KCreate2
	NumKinds
)

var kindNames = [...]string{"CALL", "CALLCODE", "DELEGATECALL", "STATICCALL", "CREATE", "CREATE2"}

func (k Kind) String() string { return kindNames[k] }
func (k Kind) IsCreate() bool { return k == KCreate || k == KCreate2 }

type Target int

const (
	TgChild Target = iota
	TgPrecompile
	TgCodeless
	TgSelf // CALL to the frame's own contract with empty calldata (the frame's code stops at once when called so)
	// TgBadPrecompile is the pairing precompile (0x08, all scenario forks): it rejects every input whose length is
	// not a multiple of 192 (the callee fails, all forwarded gas is gone) and answers 32 bytes to an empty input
	TgBadPrecompile
	// TgAbsent is an address with no account behind it (a zero-value CALL to it does nothing at all on the
	// scenario forks; a value-bearing one creates the account)
	TgAbsent
	// TgEmptyAcct is an account that exists in the pre-state with no balance, nonce or code: touching it (zero-value
	// CALL, STATICCALL) makes the end-of-transaction finalisation delete it - unless the touching frame failed
	TgEmptyAcct
)

type Frame struct {
	ID   int    `json:"id"`
	Pre  Effect `json:"pre"`
	Post Effect `json:"post"`
	Call *Call  `json:"call,omitempty"`
	Term Term   `json:"term"`
}

type Call struct {
	Kind   Kind   `json:"kind"`
	Value  int    `json:"value"` // 0 none, 1 one wei, 2 more than the balance
	Target Target `json:"target"`
	Child  *Frame `json:"child,omitempty"`
	Reuse  int    `json:"reuse"`  // 0 none, 1 return area over the argument area, 2 MSTORE over the arguments afterwards
	InLen  int    `json:"in_len"` // calldata length
}

type Scn struct {
	Fork     world.Fork `json:"fork"`
	Root     *Frame     `json:"root"`
	TopValue int        `json:"top_value"`
	TopInLen int        `json:"top_in_len"`
	JPOn     bool       `json:"jp_on"`
	Bound    uint32     `json:"bound"`  // bit i: frame i's contract has Aspects bound
	NAspects int        `json:"n_asp"`  // Aspects per join point (1 or 2)
	Frames   int        `json:"frames"` // number of frames
	// Shared: every contract uses the same storage layout (same slots, same journal variable names) instead of
	// slots and names of its own; values stay distinct per frame
	Shared bool `json:"shared,omitempty"`
}

// Kid is the identity under which frame id's effect slots and journal names are derived.
func (s *Scn) Kid(id int) int {
	if s.Shared {
		return 0
	}
	return id
}

// GenOpts selects the sub-language.
type GenOpts struct {
	MaxDepth   int
	Effects    []Effect
	Terms      []Term
	Kinds      []Kind
	Values     []int
	Targets    []Target
	Reuse      []int
	InLens     []int
	MaxFrames  int      // total number of frames (0 = unbounded within depth)
	LeafCalls  bool     // frames at the depth bound may still call precompiles / code-less accounts
	PreEffects []Effect // alphabet of the pre-effect position (nil: Effects)
	InitTerms  []Term   // terminator alphabet of init-code frames (nil: Terms)
}

func (s *Scn) String() string {
	sh := ""
	if s.Shared {
		sh = " shared-layout"
	}
	return fmt.Sprintf("%s jp=%v bound=%b n=%d top(v=%d,in=%d)%s %s", s.Fork, s.JPOn, s.Bound, s.NAspects, s.TopValue, s.TopInLen, sh, s.Root)
}

func (f *Frame) String() string {
	out := fmt.Sprintf("F%d{", f.ID)
	if f.Pre != ENone {
		out += fmt.Sprintf("pre=%d ", f.Pre)
	}
	if c := f.Call; c != nil {
		out += fmt.Sprintf("%s(v=%d", c.Kind, c.Value)
		if c.Reuse != 0 {
			out += fmt.Sprintf(",reuse=%d", c.Reuse)
		}
		if c.InLen != 32 {
			out += fmt.Sprintf(",in=%d", c.InLen)
		}
		switch c.Target {
		case TgChild:
			out += ")->" + c.Child.String() + " "
		case TgPrecompile:
			out += ")->precompile "
		case TgCodeless:
			out += ")->codeless "
		case TgSelf:
			out += ")->self "
		case TgBadPrecompile:
			out += ")->failing-precompile "
		case TgAbsent:
			out += ")->absent "
		case TgEmptyAcct:
			out += ")->empty-account "
		}
	}
	if f.Post != ENone {
		out += fmt.Sprintf("post=%d ", f.Post)
	}
	return out + termNames[f.Term] + "}"
}

// GenFrame resolves one frame (and its descendants) through the explorer.
func GenFrame(c *mc.Ctx, o *GenOpts, depth int, next *int) *Frame {
	return genFrame(c, o, depth, next, true)
}

func genFrame(c *mc.Ctx, o *GenOpts, depth int, next *int, ownCtx bool) *Frame {
	return genFrame2(c, o, depth, next, ownCtx, false)
}

func genFrame2(c *mc.Ctx, o *GenOpts, depth int, next *int, ownCtx, isInit bool) *Frame {
	f := &Frame{ID: *next}
	*next++
	pre := o.PreEffects
	if pre == nil {
		pre = o.Effects
	}
	f.Pre = pre[c.Choose(len(pre))]
	canCall := depth < o.MaxDepth && (o.MaxFrames == 0 || *next < o.MaxFrames)
	if (canCall || o.LeafCalls) && c.Choose(2) == 1 {
		cl := &Call{InLen: 32}
		cl.Kind = o.Kinds[c.Choose(len(o.Kinds))]
		if cl.Kind != KDelegateCall && cl.Kind != KStaticCall {
			cl.Value = o.Values[c.Choose(len(o.Values))]
		}
		if len(o.Reuse) > 1 {
			cl.Reuse = o.Reuse[c.Choose(len(o.Reuse))]
		}
		if len(o.InLens) > 1 {
			cl.InLen = o.InLens[c.Choose(len(o.InLens))]
		}
		tg := TgChild
		if !cl.Kind.IsCreate() && len(o.Targets) > 1 {
			tg = o.Targets[c.Choose(len(o.Targets))]
		}
		if tg == TgChild && !canCall {
			// no room for another frame: fall back to a code-less target (or an empty init code for creates)
			tg = TgCodeless
		}
		if tg == TgSelf && (!ownCtx || cl.Kind != KCall) {
			tg = TgCodeless
		}
		cl.Target = tg
		if tg == TgSelf {
			cl.InLen = 0
		}
		if tg == TgChild {
			cl.Child = genFrame2(c, o, depth+1, next, cl.Kind == KCall || cl.Kind == KStaticCall, cl.Kind.IsCreate())
		}
		f.Call = cl
	}
	f.Post = o.Effects[c.Choose(len(o.Effects))]
	terms := o.Terms
	if isInit && o.InitTerms != nil {
		terms = o.InitTerms
	}
	f.Term = terms[c.Choose(len(terms))]
	return f
}

// ---------------------------------------------------------------- addresses and constants

var (
	Codeless   = gen.EOA
	Precompile = common.BytesToAddress([]byte{4})
	// BadPrecompile: see TgBadPrecompile
	BadPrecompile = common.BytesToAddress([]byte{8})
	AbsentAddr    = gen.Absent
	EmptyAcct     = gen.Empty
)

func FrameAddr(id int) common.Address { return world.ContractAddr(100 + id) }

func sKey(id, pos int) uint64  { return uint64(0x1000 + id*4 + pos) }
func sVal(id, pos int) uint64  { return uint64(0xA000 + id*4 + pos) }
func sValB(id, pos int) uint64 { return uint64(0xB000 + id*4 + pos) }
func logTopic(id, pos int) uint64 {
	return uint64(0x7000 + id*4 + pos)
}
func FlagSlot(id int) uint64 { return uint64(0x2000 + id) }
func RdsSlot(id int) uint64  { return uint64(0x3000 + id) }

// MarkerEF is the word returned by TReturnEF.
func MarkerEF(id int) common.Hash {
	h := marker(id)
	h[0] = 0xEF
	return h
}

func marker(id int) common.Hash { return common.BigToHash(big.NewInt(int64(0xEE0000 + id))) }

func argWord(id, i int) common.Hash {
	var h common.Hash
	for j := range h {
		h[j] = byte(0xC0 + id*8 + i*4 + j%4)
	}
	h[0] = byte(0xCA)
	h[1] = byte(id)
	h[2] = byte(i)
	return h
}

// CallData returns the calldata frame id passes to its callee.
func CallData(id, n int) []byte {
	var out []byte
	for i := 0; len(out) < n; i++ {
		w := argWord(id, i)
		out = append(out, w[:]...)
	}
	return out[:n]
}

func callGas(depth int) uint64 {
	if depth <= 1 {
		return 1 << 32
	}
	return 1 << 24
}

const TopGas = uint64(1) << 40

// RefName / refKey / RefData: name, head slot and the two contents (a, b) of the reference variable of EJournalRef.
func RefName(id, pos int) string { return string([]byte{'r', byte('0' + id), byte('0' + pos)}) }
func refKey(id, pos int) uint64  { return sKey(id, pos) + 0x800 }
func RefData(id, pos int, b bool) []byte {
	out := make([]byte, 40)
	for i := range out {
		out[i] = byte(0x30 + id*16 + pos*4 + i%7)
	}
	out[0] = 0xAB
	if b {
		out[0], out[5] = 0xBA, 0xBB
	}
	return out
}

func JournalName(id, pos int) string { return string([]byte{'v', byte('0' + id), byte('0' + pos)}) }

func valueOf(v int) uint64 {
	switch v {
	case 1:
		return 1
	case 2:
		return 5000 // more than any contract balance of the scenario world
	}
	return 0
}

// ---------------------------------------------------------------- compiler

type compiled struct {
	code []byte
}

func emitEffect(p *asm.P, e Effect, id, kid, pos int) {
	key, val := sKey(kid, pos), sVal(id, pos)
	switch e {
	case ESstore:
		p.Push(val).Push(key).Op(asm.SSTORE)
	case ELog:
		p.Push(logTopic(id, pos)).Push(0).Push(0).Op(asm.LOG1)
	case EJournal, EJournalAA, EJournalABA:
		name := JournalName(kid, pos)
		for _, w := range gen.StrWords(0x200, []byte(name)) {
			p.Push32(w.Word).Push(w.Off).Op(asm.MSTORE)
		}
		emit := func(s gen.JStep) {
			for i := len(s.Operands) - 1; i >= 0; i-- {
				p.PushU(s.Operands[i])
			}
			p.Op(s.Op)
		}
		k := uint256.NewInt(key)
		emit(gen.RegisterValueVar(0x200, k, 0, gen.TypeA))
		j := gen.ValueJournal(k, uint256.NewInt(0), uint256.NewInt(32), gen.TypeA)
		p.Push(val).Push(key).Op(asm.SSTORE)
		emit(j)
		switch e {
		case EJournalAA:
			emit(j)
		case EJournalABA:
			p.Push(sValB(id, pos)).Push(key).Op(asm.SSTORE)
			emit(j)
			p.Push(val).Push(key).Op(asm.SSTORE)
			emit(j)
		}
	case ECallLeaf:
		p.Push(0).Push(0).Push(0).Push(0).Push(0).PushAddr(Codeless).Op(asm.GAS, asm.CALL, asm.POP)
	case EJournalRef:
		for _, w := range gen.StrWords(0x200, []byte(RefName(kid, pos))) {
			p.Push32(w.Word).Push(w.Off).Op(asm.MSTORE)
		}
		emit := func(s gen.JStep) {
			for i := len(s.Operands) - 1; i >= 0; i-- {
				p.PushU(s.Operands[i])
			}
			p.Op(s.Op)
		}
		k := uint256.NewInt(refKey(kid, pos))
		emit(gen.RegisterRefVar(0x200, k, gen.TypeB))
		store := func(data []byte) {
			var w0, w1 common.Hash
			copy(w0[:], data[:32])
			copy(w1[:], data[32:])
			p.Push32(w0).Push32(gen.DataSlot(k, 0)).Op(asm.SSTORE)
			p.Push32(w1).Push32(gen.DataSlot(k, 1)).Op(asm.SSTORE)
		}
		j := gen.RefJournal(k, gen.TypeB)
		p.Push(uint64(2*40 + 1)).Push(refKey(kid, pos)).Op(asm.SSTORE)
		store(RefData(id, pos, false))
		emit(j)
		store(RefData(id, pos, true))
		emit(j)
		store(RefData(id, pos, false))
		emit(j)
	}
}

// compileFrame assembles the code of f. static tells whether the frame runs under write protection (the harness
// plumbing that stores flags is omitted there); depth is the frame's call depth (root = 1).
func compileFrame(f *Frame, fork world.Fork, static bool, depth int, shared bool) []byte {
	kid := f.ID
	if shared {
		kid = 0
	}
	p := asm.New()
	p.Op(asm.JUMPDEST)
	if f.Call != nil && f.Call.Target == TgSelf {
		// called with empty calldata (by itself) the frame stops at once
		p.Op(asm.CALLDATASIZE).Op(0x61, 0, 7).Op(asm.JUMPI, asm.STOP, asm.JUMPDEST)
	}
	emitEffect(p, f.Pre, f.ID, kid, 1)
	var initCode []byte
	patchAt := -1
	if c := f.Call; c != nil {
		// arguments
		for i := 0; i*32 < c.InLen; i++ {
			p.Push32(argWord(f.ID, i)).Push(uint64(32 * i)).Op(asm.MSTORE)
		}
		outOff := uint64(0x40)
		if c.Reuse == 1 {
			outOff = 0
		}
		childStatic := static || c.Kind == KStaticCall
		if c.Kind.IsCreate() {
			if c.Child != nil {
				initCode = compileFrame(c.Child, fork, static, depth+1, shared)
			}
			// CODECOPY(0x80, offset, len)
			p.Push(uint64(len(initCode))).Op(0x61, 0, 0)
			patchAt = p.Len() - 2
			p.Push(0x80).Op(asm.CODECOPY)
			if c.Kind == KCreate2 {
				p.Push(uint64(0x5a17 + f.ID))
			}
			p.Push(uint64(len(initCode))).Push(0x80).Push(valueOf(c.Value)).Op(map[Kind]byte{KCreate: asm.CREATE, KCreate2: asm.CREATE2}[c.Kind])
			p.Op(asm.ISZERO, asm.ISZERO)
		} else {
			var to common.Address
			switch c.Target {
			case TgChild:
				to = FrameAddr(c.Child.ID)
			case TgPrecompile:
				to = Precompile
			case TgCodeless:
				to = Codeless
			case TgSelf:
				to = FrameAddr(f.ID)
			case TgBadPrecompile:
				to = BadPrecompile
			case TgAbsent:
				to = AbsentAddr
			case TgEmptyAcct:
				to = EmptyAcct
			}
			p.Push(32).Push(outOff).Push(uint64(c.InLen)).Push(0)
			if c.Kind == KCall || c.Kind == KCallCode {
				p.Push(valueOf(c.Value))
			}
			p.PushAddr(to).Push(callGas(depth))
			p.Op(map[Kind]byte{KCall: asm.CALL, KCallCode: asm.CALLCODE, KDelegateCall: asm.DELEGATECALL, KStaticCall: asm.STATICCALL}[c.Kind])
		}
		_ = childStatic
		if static {
			p.Op(asm.POP)
		} else {
			p.Push(1).Op(asm.ADD).Push(FlagSlot(f.ID)).Op(asm.SSTORE)
			p.Op(asm.RETURNDATASIZE).Push(1).Op(asm.ADD).Push(RdsSlot(f.ID)).Op(asm.SSTORE)
		}
		if c.Reuse == 2 {
			p.Push32(common.HexToHash("0xdeaddeaddeaddeaddeaddeaddeaddeaddeaddeaddeaddeaddeaddeaddeaddead")).Push(0).Op(asm.MSTORE)
			p.Push32(common.HexToHash("0xdeaddeaddeaddeaddeaddeaddeaddeaddeaddeaddeaddeaddeaddeaddeaddead")).Push(32).Op(asm.MSTORE)
			if c.Kind.IsCreate() {
				// the init code was handed over from 0x80
				p.Push32(common.HexToHash("0xdeaddeaddeaddeaddeaddeaddeaddeaddeaddeaddeaddeaddeaddeaddeaddead")).Push(0x80).Op(asm.MSTORE)
				p.Push32(common.HexToHash("0xdeaddeaddeaddeaddeaddeaddeaddeaddeaddeaddeaddeaddeaddeaddeaddead")).Push(0xa0).Op(asm.MSTORE)
			}
		}
	}
	emitEffect(p, f.Post, f.ID, kid, 2)
	switch f.Term {
	case TStop:
		p.Op(asm.STOP)
	case TReturn:
		p.Push32(marker(f.ID)).Push(0).Op(asm.MSTORE).Push(32).Push(0).Op(asm.RETURN)
	case TRevert:
		p.Push32(marker(f.ID)).Push(0).Op(asm.MSTORE).Push(32).Push(0).Op(asm.REVERT)
	case TInvalid:
		p.Op(asm.INVALID)
	case TUnderflow:
		p.Op(asm.POP)
	case TOOG:
		p.Push(1).Push(1 << 40).Op(asm.MSTORE)
	case TSelfdestruct:
		p.PushAddr(world.Origin).Op(asm.SELFDESTRUCT)
	case TReturnEF:
		p.Push32(MarkerEF(f.ID)).Push(0).Op(asm.MSTORE).Push(32).Push(0).Op(asm.RETURN)
	case TReturnBig:
		p.Push(BigLen).Push(0).Op(asm.RETURN)
	}
	if patchAt >= 0 {
		off := p.Len()
		p.B[patchAt], p.B[patchAt+1] = byte(off>>8), byte(off)
		p.Op(initCode...)
	}
	return p.Bytes()
}

// staticOf computes for every frame whether it runs under write protection.
func walk(f *Frame, static bool, depth int, parent *Frame, fn func(f *Frame, static bool, depth int, parent *Frame)) {
	fn(f, static, depth, parent)
	if f.Call != nil && f.Call.Child != nil {
		walk(f.Call.Child, static || f.Call.Kind == KStaticCall, depth+1, f, fn)
	}
}

// Walk visits all frames in pre-order.
func (s *Scn) Walk(fn func(f *Frame, static bool, depth int, parent *Frame)) {
	walk(s.Root, false, 1, nil, fn)
}

const ContractBalance = 1000

// Case compiles the scenario into a world case (top-level CALL from Origin to the root frame's contract).
func (s *Scn) Case() *world.Case {
	accounts := []world.Account{
		{Addr: world.Origin, Balance: (*hexutil.Big)(new(big.Int).Exp(big.NewInt(10), big.NewInt(18), nil)), Nonce: 5},
		{Addr: Codeless, Balance: world.Big(12345)},
		{Addr: EmptyAcct},
	}
	s.Walk(func(f *Frame, static bool, depth int, parent *Frame) {
		if parent != nil && parent.Call.Kind.IsCreate() {
			return // init code lives inside the creator
		}
		accounts = append(accounts, world.Account{Addr: FrameAddr(f.ID), Balance: world.Big(ContractBalance), Nonce: 1, Code: compileFrame(f, s.Fork, static, depth, s.Shared)})
	})
	cs := &world.Case{Fork: s.Fork, ForkName: s.Fork.String(), Accounts: accounts, Entry: "call", From: world.Origin, To: FrameAddr(s.Root.ID),
		Input: CallData(99, s.TopInLen), Gas: TopGas}
	if s.TopValue != 0 {
		cs.Value = world.Big(valueOf(s.TopValue))
	}
	return cs
}

// CreateAddr computes the address of a contract created by creator with the given nonce / salt and init code.
func CreateAddr(kind Kind, creator common.Address, nonce uint64, frameID int, initCode []byte) common.Address {
	if kind == KCreate {
		return crypto.CreateAddress(creator, nonce)
	}
	salt := common.BigToHash(big.NewInt(int64(0x5a17 + frameID)))
	return crypto.CreateAddress2(creator, salt, crypto.Keccak256(initCode))
}

// InitCode returns the init code of the create performed by frame f.
func (s *Scn) InitCode(f *Frame) []byte {
	if f.Call == nil || !f.Call.Kind.IsCreate() || f.Call.Child == nil {
		return nil
	}
	var out []byte
	s.Walk(func(g *Frame, static bool, depth int, parent *Frame) {
		if g == f.Call.Child {
			out = compileFrame(g, s.Fork, static, depth, s.Shared)
		}
	})
	return out
}
