package scn

import (
	"bytes"
	"fmt"
	"math/big"
	"sort"

	"github.com/ethereum/go-ethereum/common"
	"verif/world"
)

// Reference interpreter of the scenario AST: computes, independently of any EVM, the post-state, logs, success
// flags, call-tree nodes, join-point firings, journal attribution and balance journal a scenario denotes.

// Answer is what one Aspect execution (or the provider) answers at a join-point firing.
type Answer struct {
	Kind int    `json:"kind"` // 0 ok, 1 out of gas, 2 revert, 3 other failure, 4 provider failure
	Burn uint64 `json:"burn"` // gas burnt when Kind is 0 or 3 (^0 = all)
}

const BurnAll = ^uint64(0)

func (a Answer) Fails() bool { return a.Kind != 0 }

type MLog struct {
	Addr  common.Address
	Topic uint64
}

type MWorld struct {
	Storage  map[common.Address]map[uint64]uint64
	Balance  map[common.Address]*big.Int
	Nonce    map[common.Address]uint64
	Code     map[common.Address][]byte
	Exists   map[common.Address]bool
	Suicided map[common.Address]bool
	// Touched: accounts touched while empty by frames that have not failed (EIP-161: deleted when the transaction is
	// finalised)
	Touched map[common.Address]bool
	Logs    []MLog
}

func (w *MWorld) empty(a common.Address) bool {
	return (w.Balance[a] == nil || w.Balance[a].Sign() == 0) && w.Nonce[a] == 0 && len(w.Code[a]) == 0
}

// touch records an AddBalance(a, 0) / value transfer reaching a (only empty accounts are marked, as in the StateDB).
func (w *MWorld) touch(a common.Address) {
	if w.empty(a) {
		if w.Touched == nil {
			w.Touched = map[common.Address]bool{}
		}
		w.Touched[a] = true
	}
}

// ExistsFinalised tells whether a is an account after the end-of-transaction finalisation.
func (w *MWorld) ExistsFinalised(a common.Address) bool {
	if !w.Exists[a] || w.Suicided[a] {
		return false
	}
	return !(w.Touched[a] && w.empty(a))
}

func (w *MWorld) clone() *MWorld {
	n := &MWorld{Storage: map[common.Address]map[uint64]uint64{}, Balance: map[common.Address]*big.Int{}, Nonce: map[common.Address]uint64{},
		Code: map[common.Address][]byte{}, Exists: map[common.Address]bool{}, Suicided: map[common.Address]bool{}}
	for a, m := range w.Storage {
		c := map[uint64]uint64{}
		for k, v := range m {
			c[k] = v
		}
		n.Storage[a] = c
	}
	for a, b := range w.Balance {
		n.Balance[a] = new(big.Int).Set(b)
	}
	for a, v := range w.Nonce {
		n.Nonce[a] = v
	}
	for a, v := range w.Code {
		n.Code[a] = v
	}
	for a, v := range w.Exists {
		n.Exists[a] = v
	}
	for a, v := range w.Suicided {
		n.Suicided[a] = v
	}
	if w.Touched != nil {
		n.Touched = map[common.Address]bool{}
		for a, v := range w.Touched {
			n.Touched[a] = v
		}
	}
	n.Logs = append([]MLog{}, w.Logs...)
	return n
}

func (w *MWorld) bal(a common.Address) *big.Int {
	if b := w.Balance[a]; b != nil {
		return b
	}
	b := new(big.Int)
	w.Balance[a] = b
	return b
}

func (w *MWorld) sstore(a common.Address, k, v uint64) {
	if w.Storage[a] == nil {
		w.Storage[a] = map[uint64]uint64{}
	}
	w.Storage[a][k] = v
}

// MNode is one expected call-tree node.
type MNode struct {
	Index    int
	Parent   int // -1 for the top-level call
	Kind     Kind
	From     common.Address
	To       *common.Address // nil for creates
	Created  common.Address
	Value    uint64
	Data     []byte
	Refused  string // non-empty: refused up front with this reason
	OK       bool
	Reverted bool   // failed with revert semantics (return data and gas handed back)
	Ret      []byte // return data as handed back to the caller
	FrameID  int    // frame executed by this call (-1 none)
	CallerID int    // frame that issued it (-1: host)
	JPFailed string // "", "pre", "post"
	JPAnswer Answer // the failing answer
}

// MFiring is one expected Aspect execution at a join point.
type MFiring struct {
	Pre      bool
	Contract common.Address
	From     common.Address
	Data     []byte
	Value    uint64
	Index    int
	Aspect   int
	Ret      []byte // post only: return data of the call
	Err      string // post only: error text class ("", "revert", "halt")
	Answer   Answer
	Provider bool // the provider failed: no Aspect ran
}

type MResult struct {
	World    *MWorld
	Nodes    []*MNode
	Firings  []MFiring
	Journal  map[common.Address]map[string]map[int][][]byte // account -> variable -> call index -> values
	BalJ     map[common.Address]map[int][][]byte
	Keys     map[common.Address][]string // registered variable names per account
	TopOK    bool
	TopRet   []byte
	Tops     []MTop // one entry per top-level invocation
	Answered int    // number of answers consumed
	// frames that ran / failed (by frame id)
	Ran     map[int]bool
	Failed  map[int]bool
	Created []common.Address
	// storage slots whose value the statement does not determine (RETURNDATASIZE after a join-point failure)
	Unjudged map[common.Address]map[uint64]bool
}

// MTop is the outcome of one top-level invocation.
type MTop struct {
	OK       bool
	Ret      []byte
	Answered int
}

type model struct {
	s        *Scn
	w        *MWorld
	res      *MResult
	answers  []Answer
	next     int
	static   map[int]bool
	depthOf  map[int]int
	burntAll bool // the join point just fired left no gas
	jpOn     bool
}

type mctx struct {
	addr, caller common.Address
	value        uint64
	static       bool
	depth        int
	node         int
}

func appendCollapsed(m map[int][][]byte, idx int, v []byte) {
	l := m[idx]
	if len(l) > 0 && bytes.Equal(l[len(l)-1], v) {
		return
	}
	m[idx] = append(l, v)
}

func word(v uint64) []byte { return common.BigToHash(new(big.Int).SetUint64(v)).Bytes() }

func (m *model) answer() Answer {
	if m.next < len(m.answers) {
		a := m.answers[m.next]
		m.next++
		return a
	}
	m.next++
	return Answer{}
}

// InitialWorld is the pre-state of the scenario in model form.
func (s *Scn) InitialWorld() *MWorld {
	w := &MWorld{Storage: map[common.Address]map[uint64]uint64{}, Balance: map[common.Address]*big.Int{}, Nonce: map[common.Address]uint64{},
		Code: map[common.Address][]byte{}, Exists: map[common.Address]bool{}, Suicided: map[common.Address]bool{}}
	for _, a := range s.Case().Accounts {
		w.Exists[a.Addr] = true
		if a.Balance != nil {
			w.Balance[a.Addr] = new(big.Int).Set((*big.Int)(a.Balance))
		}
		w.Nonce[a.Addr] = a.Nonce
		w.Code[a.Addr] = a.Code
	}
	return w
}

// Model interprets one top-level invocation of the scenario with the given sequence of join-point answers.
func Model(s *Scn, answers []Answer) *MResult {
	m := NewModel(s)
	m.Invoke(s.JPOn, answers)
	return m.Res()
}

// ModelSeq is the reference interpreter over several consecutive top-level invocations on one EVM and state.
type ModelSeq = model

// NewModel prepares the interpreter on the scenario's initial world.
func NewModel(s *Scn) *ModelSeq {
	m := &model{s: s, w: s.InitialWorld()}
	m.res = &MResult{Journal: map[common.Address]map[string]map[int][][]byte{}, BalJ: map[common.Address]map[int][][]byte{}, Keys: map[common.Address][]string{},
		Ran: map[int]bool{}, Failed: map[int]bool{}, Unjudged: map[common.Address]map[uint64]bool{}}
	return m
}

// Invoke interprets one more top-level call (Origin -> root contract). answers are consumed from the start.
func (m *model) Invoke(jpOn bool, answers []Answer) {
	m.jpOn, m.answers, m.next = jpOn, answers, 0
	root := FrameAddr(m.s.Root.ID)
	top := mctx{addr: world.Origin, depth: 0, node: -1}
	ok, _, ret := m.call(nil, top, KCall, root, m.s.Root, valueOf(m.s.TopValue), CallData(99, m.s.TopInLen))
	m.res.TopOK, m.res.TopRet = ok, ret
	m.res.Tops = append(m.res.Tops, MTop{OK: ok, Ret: ret, Answered: m.next})
	m.res.World = m.w
	m.res.Answered = m.next
}

func (m *model) Res() *MResult { return m.res }

func (m *model) bound(a common.Address) (int, bool) {
	if !m.jpOn {
		return 0, false
	}
	var id = -1
	m.s.Walk(func(f *Frame, static bool, depth int, parent *Frame) {
		if FrameAddr(f.ID) == a && (parent == nil || !parent.Call.Kind.IsCreate()) {
			id = f.ID
		}
	})
	if id < 0 || m.s.Bound&(1<<uint(id)) == 0 {
		return 0, false
	}
	return id, true
}

func (m *model) balJ(a common.Address, idx int) {
	if m.res.BalJ[a] == nil {
		m.res.BalJ[a] = map[int][][]byte{}
	}
	appendCollapsed(m.res.BalJ[a], idx, m.w.bal(a).Bytes())
}

func (m *model) transfer(from, to common.Address, v uint64, idx int) {
	m.balJ(from, idx)
	m.balJ(to, idx)
	amt := new(big.Int).SetUint64(v)
	m.w.bal(from).Sub(m.w.bal(from), amt)
	m.w.bal(to).Add(m.w.bal(to), amt)
	m.balJ(from, idx)
	m.balJ(to, idx)
}

// fire runs the Aspect executions of one join point; returns the failing answer (if any) and the last return data.
func (m *model) fire(pre bool, contract, from common.Address, data []byte, value uint64, idx int, ret []byte, errClass string) (failed bool, ans Answer) {
	m.burntAll = false
	if _, ok := m.bound(contract); !ok {
		return false, Answer{}
	}
	for i := 0; i < m.s.NAspects; i++ {
		a := m.answer()
		if a.Kind == 4 && i > 0 {
			a.Kind = 3 // a provider failure can only happen before the first Aspect; later slots read it as a generic failure
		}
		f := MFiring{Pre: pre, Contract: contract, From: from, Data: data, Value: value, Index: idx, Aspect: i, Ret: ret, Err: errClass, Answer: a}
		if a.Kind == 4 {
			// provider failure is decided before any Aspect runs: only meaningful at the first execution slot
			f.Provider = true
			m.res.Firings = append(m.res.Firings, f)
			return true, a
		}
		m.res.Firings = append(m.res.Firings, f)
		if a.Fails() {
			return true, a
		}
		if a.Burn == BurnAll {
			m.burntAll = true
		}
	}
	return false, Answer{}
}

var pairingTrue = append(make([]byte, 31), 1)

// call performs one call-type instruction issued by frame caller (nil: host) in context cx.
// Returns (ok, instruction-level fault of the caller, return data).
func (m *model) call(callerFrame *Frame, cx mctx, kind Kind, to common.Address, child *Frame, value uint64, data []byte) (ok bool, fault bool, ret []byte) {
	w := m.w
	callerID := -1
	if callerFrame != nil {
		callerID = callerFrame.ID
	}
	if kind == KCreate2 && m.s.Fork < world.Constantinople {
		return false, true, nil // not an instruction before Constantinople: the frame halts
	}
	if cx.static && (kind.IsCreate() || (kind == KCall && value != 0)) {
		return false, true, nil // write protection: the instruction itself faults, no attempt is made
	}
	newNode := func() *MNode {
		n := &MNode{Index: len(m.res.Nodes), Parent: cx.node, Kind: kind, From: cx.addr, Value: value, Data: data, FrameID: -1, CallerID: callerID}
		if !kind.IsCreate() {
			t := to
			n.To = &t
		}
		m.res.Nodes = append(m.res.Nodes, n)
		return n
	}
	amt := new(big.Int).SetUint64(value)
	switch kind {
	case KCall:
		n := newNode()
		if value != 0 && w.bal(cx.addr).Cmp(amt) < 0 {
			n.Refused = "insufficient balance"
			return false, false, nil
		}
		snap := w.clone()
		if !w.Exists[to] {
			if to != Precompile && to != BadPrecompile && value == 0 {
				n.OK = true
				return true, false, nil
			}
			w.Exists[to] = true
		}
		w.touch(to) // the transfer's AddBalance reaches the recipient (marks it when it is empty)
		m.transfer(cx.addr, to, value, n.Index)
		switch {
		case to == Precompile:
			n.OK, n.Ret = true, data
			return true, false, data
		case to == BadPrecompile:
			if len(data) == 0 {
				n.OK, n.Ret = true, pairingTrue
				return true, false, pairingTrue
			}
			// the precompile rejects the input: the frame fails, the value transfer and account creation are undone
			*w = *snap
			return false, false, nil
		case child == nil:
			n.OK = true
			return true, false, nil
		}
		n.FrameID = child.ID
		if failed, a := m.fire(true, to, cx.addr, data, value, n.Index, nil, ""); failed {
			*w = *snap
			n.JPFailed, n.JPAnswer = "pre", a
			n.Reverted = a.Kind == 2
			if a.Kind == 2 {
				n.Ret = RevertRet
			}
			return false, false, nil
		}
		var fok, frev bool
		var fret []byte
		if m.burntAll {
			// the pre join point left no gas: the callee's first instruction runs out of gas
			m.res.Ran[child.ID], m.res.Failed[child.ID] = true, true
		} else {
			fok, frev, fret = m.run(child, mctx{addr: to, caller: cx.addr, value: value, static: cx.static, depth: cx.depth + 1, node: n.Index})
		}
		errClass := ""
		if !fok {
			errClass = "halt"
			if frev {
				errClass = "revert"
			}
		}
		if failed, a := m.fire(false, to, cx.addr, data, value, n.Index, fret, errClass); failed {
			*w = *snap
			n.JPFailed, n.JPAnswer = "post", a
			n.Reverted = a.Kind == 2
			switch a.Kind {
			case 2:
				n.Ret = RevertRet
			case 1:
				n.Ret = fret // an out-of-gas join point keeps the callee's return data next to the error
			}
			m.res.Failed[child.ID] = true
			return false, false, nil
		}
		if !fok {
			*w = *snap
			n.Reverted, n.Ret = frev, fret
			return false, false, fret
		}
		n.OK, n.Ret = true, fret
		return true, false, fret
	case KCallCode, KDelegateCall, KStaticCall:
		if kind == KCallCode && w.bal(cx.addr).Cmp(amt) < 0 {
			return false, false, nil
		}
		snap := w.clone()
		if kind == KStaticCall {
			w.touch(to) // StaticCall touches its target with AddBalance(to, 0)
		}
		switch {
		case to == Precompile:
			return true, false, data
		case to == BadPrecompile:
			if len(data) == 0 {
				return true, false, pairingTrue
			}
			return false, false, nil
		case child == nil:
			return true, false, nil
		}
		c2 := mctx{depth: cx.depth + 1, node: cx.node, static: cx.static}
		switch kind {
		case KCallCode:
			c2.addr, c2.caller, c2.value = cx.addr, cx.addr, value
		case KDelegateCall:
			c2.addr, c2.caller, c2.value = cx.addr, cx.caller, cx.value
		case KStaticCall:
			c2.addr, c2.caller, c2.value, c2.static = to, cx.addr, 0, true
		}
		fok, _, fret := m.run(child, c2)
		if !fok {
			*w = *snap
			return false, false, fret
		}
		return true, false, fret
	default: // creates
		n := newNode()
		var initCode []byte
		if callerFrame != nil {
			initCode = m.s.InitCode(callerFrame)
		}
		n.Data = initCode
		if w.bal(cx.addr).Cmp(amt) < 0 {
			n.Refused = "insufficient balance"
			return false, false, nil
		}
		nonce := w.Nonce[cx.addr]
		w.Nonce[cx.addr] = nonce + 1
		addr := CreateAddr(kind, cx.addr, nonce, callerID, initCode)
		n.Created = addr
		if w.Nonce[addr] != 0 || len(w.Code[addr]) != 0 {
			n.Refused = "collision"
			return false, false, nil
		}
		snap := w.clone()
		w.Exists[addr] = true
		w.Nonce[addr] = 1
		w.Storage[addr] = map[uint64]uint64{}
		m.transfer(cx.addr, addr, value, n.Index)
		var fok, frev = true, false
		var fret []byte
		if child != nil {
			n.FrameID = child.ID
			fok, frev, fret = m.run(child, mctx{addr: addr, caller: cx.addr, value: value, depth: cx.depth + 1, node: n.Index})
		}
		if fok && (len(fret) > 24576 || m.s.Fork >= world.London && len(fret) > 0 && fret[0] == 0xEF) {
			// the init code returned, but the result is refused as contract code: exceptional failure that still hands
			// the rejected bytes back through the entry point (the creating instruction sees no return data)
			*w = *snap
			n.Ret = fret
			if child != nil {
				m.res.Failed[child.ID] = true
			}
			return false, false, nil
		}
		if !fok {
			*w = *snap
			n.Reverted = frev
			if frev {
				n.Ret = fret
				return false, false, fret
			}
			return false, false, nil
		}
		w.Code[addr] = fret
		n.OK, n.Ret = true, fret // the entry point hands the deployed code back
		m.res.Created = append(m.res.Created, addr)
		return true, false, nil
	}
}

func (m *model) effect(f *Frame, cx mctx, e Effect, pos int) (ok bool) {
	key, val := sKey(m.s.Kid(f.ID), pos), sVal(f.ID, pos)
	switch e {
	case ESstore:
		if cx.static {
			return false
		}
		m.w.sstore(cx.addr, key, val)
	case ELog:
		if cx.static {
			return false
		}
		m.w.Logs = append(m.w.Logs, MLog{cx.addr, logTopic(f.ID, pos)})
	case EJournal, EJournalAA, EJournalABA:
		name := JournalName(m.s.Kid(f.ID), pos)
		has := false
		for _, k := range m.res.Keys[cx.addr] {
			if k == name {
				has = true
			}
		}
		if !has {
			m.res.Keys[cx.addr] = append(m.res.Keys[cx.addr], name)
		}
		if cx.static {
			return false // the SSTORE of the group faults
		}
		idx := cx.node
		if idx < 0 {
			idx = 0
		}
		j := func(v uint64) {
			if m.res.Journal[cx.addr] == nil {
				m.res.Journal[cx.addr] = map[string]map[int][][]byte{}
			}
			if m.res.Journal[cx.addr][name] == nil {
				m.res.Journal[cx.addr][name] = map[int][][]byte{}
			}
			appendCollapsed(m.res.Journal[cx.addr][name], idx, word(v))
		}
		m.w.sstore(cx.addr, key, val)
		j(val)
		switch e {
		case EJournalAA:
			j(val)
		case EJournalABA:
			m.w.sstore(cx.addr, key, sValB(f.ID, pos))
			j(sValB(f.ID, pos))
			m.w.sstore(cx.addr, key, val)
			j(val)
		}
	case ECallLeaf:
		m.call(f, cx, KCall, Codeless, nil, 0, nil)
	case EJournalRef:
		name := RefName(m.s.Kid(f.ID), pos)
		has := false
		for _, k := range m.res.Keys[cx.addr] {
			if k == name {
				has = true
			}
		}
		if !has {
			m.res.Keys[cx.addr] = append(m.res.Keys[cx.addr], name)
		}
		if cx.static {
			return false // the first SSTORE of the group faults
		}
		idx := cx.node
		if idx < 0 {
			idx = 0
		}
		if m.res.Journal[cx.addr] == nil {
			m.res.Journal[cx.addr] = map[string]map[int][][]byte{}
		}
		if m.res.Journal[cx.addr][name] == nil {
			m.res.Journal[cx.addr][name] = map[int][][]byte{}
		}
		m.w.sstore(cx.addr, refKey(m.s.Kid(f.ID), pos), 2*40+1)
		for _, b := range []bool{false, true, false} {
			appendCollapsed(m.res.Journal[cx.addr][name], idx, RefData(f.ID, pos, b))
		}
	}
	return true
}

// run executes frame f in context cx. Returns (ok, reverted, return data). State rollback is the caller's job.
func (m *model) run(f *Frame, cx mctx) (ok, reverted bool, ret []byte) {
	m.res.Ran[f.ID] = true
	fail := func() (bool, bool, []byte) { m.res.Failed[f.ID] = true; return false, false, nil }
	if !m.effect(f, cx, f.Pre, 1) {
		return fail()
	}
	if c := f.Call; c != nil {
		var to common.Address
		switch c.Target {
		case TgChild:
			if !c.Kind.IsCreate() {
				to = FrameAddr(c.Child.ID)
			}
		case TgPrecompile:
			to = Precompile
		case TgCodeless:
			to = Codeless
		case TgBadPrecompile:
			to = BadPrecompile
		case TgAbsent:
			to = AbsentAddr
		case TgEmptyAcct:
			to = EmptyAcct
		}
		child := c.Child
		if c.Target == TgSelf {
			to, child = FrameAddr(f.ID), &Frame{ID: f.ID, Term: TStop}
		}
		cok, fault, cret := m.call(f, cx, c.Kind, to, child, valueOf(c.Value), CallData(f.ID, c.InLen))
		if fault {
			return fail()
		}
		if !cx.static {
			flag := uint64(1)
			if cok {
				flag = 2
			}
			m.w.sstore(cx.addr, FlagSlot(f.ID), flag)
			rds := uint64(len(cret))
			if c.Kind.IsCreate() && cok {
				rds = 0
			}
			m.w.sstore(cx.addr, RdsSlot(f.ID), rds+1)
			for _, n := range m.res.Nodes {
				if n.CallerID == f.ID && n.JPFailed != "" {
					if m.res.Unjudged[cx.addr] == nil {
						m.res.Unjudged[cx.addr] = map[uint64]bool{}
					}
					m.res.Unjudged[cx.addr][RdsSlot(f.ID)] = true
				}
			}
		}
	}
	if !m.effect(f, cx, f.Post, 2) {
		return fail()
	}
	switch f.Term {
	case TStop:
		return true, false, nil
	case TReturn:
		return true, false, marker(f.ID).Bytes()
	case TReturnEF:
		return true, false, MarkerEF(f.ID).Bytes()
	case TReturnBig:
		return true, false, make([]byte, BigLen)
	case TRevert:
		m.res.Failed[f.ID] = true
		return false, true, marker(f.ID).Bytes()
	case TSelfdestruct:
		if cx.static {
			return fail()
		}
		b := m.w.bal(cx.addr)
		m.w.bal(world.Origin).Add(m.w.bal(world.Origin), b)
		m.w.Balance[cx.addr] = new(big.Int)
		m.w.Suicided[cx.addr] = true
		return true, false, nil
	}
	return fail()
}

// Addresses lists every address the scenario can touch (for state comparison).
func (r *MResult) Addresses(s *Scn) []common.Address {
	set := map[common.Address]bool{world.Origin: true, Codeless: true, Precompile: true, BadPrecompile: true, AbsentAddr: true, EmptyAcct: true}
	s.Walk(func(f *Frame, static bool, depth int, parent *Frame) { set[FrameAddr(f.ID)] = true })
	for _, n := range r.Nodes {
		if n.Created != (common.Address{}) {
			set[n.Created] = true
		}
	}
	var out []common.Address
	for a := range set {
		out = append(out, a)
	}
	sort.Slice(out, func(i, j int) bool { return bytes.Compare(out[i][:], out[j][:]) < 0 })
	return out
}

// Slots lists every storage slot the scenario can write.
func (s *Scn) Slots() []uint64 {
	var out []uint64
	s.Walk(func(f *Frame, static bool, depth int, parent *Frame) {
		out = append(out, sKey(s.Kid(f.ID), 1), sKey(s.Kid(f.ID), 2), refKey(s.Kid(f.ID), 1), refKey(s.Kid(f.ID), 2), FlagSlot(f.ID), RdsSlot(f.ID))
	})
	return out
}

func (n *MNode) String() string {
	to := "create"
	if n.To != nil {
		to = fmt.Sprintf("%x", n.To[16:])
	}
	return fmt.Sprintf("#%d<-%d %s %x->%s v=%d ok=%v refused=%q jp=%q", n.Index, n.Parent, n.Kind, n.From[16:], to, n.Value, n.OK, n.Refused, n.JPFailed)
}
