package scn

import (
	"errors"
	"fmt"
	"math/big"
	"strings"

	avm "github.com/artela-network/artela-evm/vm"
	"github.com/artela-network/aspect-core/djpm/run"
	atypes "github.com/artela-network/aspect-core/types"
	"github.com/ethereum/go-ethereum/common"
	"google.golang.org/protobuf/proto"
	"verif/world"
)

// Real execution of a compiled scenario on /repo's EVM with a scripted Aspect runtime.

// RFiring is one observed Aspect execution (stub runner invocation), fields dereferenced at firing time.
type RFiring struct {
	Pre      bool
	Contract common.Address
	Aspect   common.Address
	GasIn    uint64
	From, To common.Address
	Data     []byte
	Value    []byte
	Index    uint64
	ReqGas   uint64
	Block    uint64 // block number announced in the request (0: absent)
	Ret      []byte
	Err      string
	Answer   Answer
	GasOut   uint64
	At       int    // position in the interleaved event log
	RealErr  string // real runtime: error text the Aspect execution ended with
}

type RunOpts struct {
	// Answer decides the answer of the k-th Aspect execution / provider query (nil: always ok).
	Answer func(k int, pre bool) Answer
	// Full keeps stack/memory in the event lines.
	Full bool
	// Modes lists the join-point switch (EVM.IsExecuteJP) of each consecutive top-level invocation on the same EVM
	// (nil: one invocation with the scenario's JPOn).
	Modes []bool
	// Logger, if set, is attached as the EVM's debug tracer instead of the recording logger.
	Logger avm.EVMLogger
	// OnEvent is called after every recorded debug-tracer / Aspect event (scheduling point seam).
	OnEvent func(kind byte)
	// BeforeNew is called right before the EVM is constructed (scheduling point seam).
	BeforeNew func()
	// TopGas overrides the gas of the top-level call (0: scn.TopGas).
	TopGas uint64
}

type Run struct {
	Env      *world.AEnv
	Rec      *world.ARec
	Case     *world.Case
	Firings  []RFiring
	Answers  []Answer
	Provider []string // provider queries "contract cut"
	Ret      []byte
	Gas      uint64
	Err      error
	Panic    string
	// balances seen by the Transfer wrapper: from-before, to-before, from-after, to-after, with the shadow index
	Transfers []RTransfer
	Invs      []RInv
}

type RTransfer struct {
	From, To                                 common.Address
	Amount                                   *big.Int
	FromBefore, ToBefore, FromAfter, ToAfter *big.Int
}

var AspectIDs = []common.Address{common.HexToAddress("0xa5ec700000000000000000000000000000000001"), common.HexToAddress("0xa5ec700000000000000000000000000000000002")}

var errOther = errors.New("aspect failed")
var errProvider = errors.New("provider failed")

// RevertRet is the return data of a reverting Aspect.
var RevertRet = run.PackRevert("aspect says no")

// Exec runs the scenario's top-level call.
func Exec(s *Scn, o RunOpts) *Run {
	cs := s.Case()
	if o.TopGas != 0 {
		cs.Gas = o.TopGas
	}
	r := &Run{Case: cs}
	rec := &world.ARec{KeepAll: true, Rec: world.Rec{NoData: !o.Full}}
	r.Rec = rec
	boundID := map[common.Address]int{}
	s.Walk(func(f *Frame, static bool, depth int, parent *Frame) {
		if parent == nil || !parent.Call.Kind.IsCreate() {
			boundID[FrameAddr(f.ID)] = f.ID
		}
	})
	jpOn := s.JPOn
	nextAnswer := func(pre bool) Answer {
		a := Answer{}
		if o.Answer != nil {
			a = o.Answer(len(r.Answers), pre)
		}
		r.Answers = append(r.Answers, a)
		return a
	}
	pendingProvider := map[string]*Answer{}
	var realQueue []Answer
	if world.RealRunner {
		// no stub runner: Aspect executions are observed through the Aspect logger events
		rec.OnAspect = func(enter bool, jp atypes.JoinPointRunType, from, to, aspect common.Address, input []byte, gas uint64, value *big.Int, req proto.Message, res *atypes.AspectExecutionResult) {
			if enter {
				f := RFiring{Pre: jp == atypes.JoinPointRunType_PreContractCall, Contract: to, Aspect: aspect, GasIn: gas, From: from, To: to, Data: append([]byte{}, input...)}
				if len(realQueue) > 0 {
					f.Answer = realQueue[0]
					realQueue = realQueue[1:]
				}
				switch q := req.(type) {
				case *atypes.PreContractCallInput:
					if q.Call.Index != nil {
						f.Index = *q.Call.Index
					}
					f.Value = append([]byte{}, q.Call.Value...)
					if q.Call.Gas != nil {
						f.ReqGas = *q.Call.Gas
					}
					if q.Block != nil && q.Block.Number != nil {
						f.Block = *q.Block.Number
					}
				case *atypes.PostContractCallInput:
					if q.Call.Index != nil {
						f.Index = *q.Call.Index
					}
					f.Value = append([]byte{}, q.Call.Value...)
					if q.Call.Gas != nil {
						f.ReqGas = *q.Call.Gas
					}
					if q.Block != nil && q.Block.Number != nil {
						f.Block = *q.Block.Number
					}
					f.Ret = append([]byte{}, q.Call.Ret...)
					if q.Call.Error != nil {
						f.Err = *q.Call.Error
					}
				}
				f.At = len(rec.All)
				r.Firings = append(r.Firings, f)
				return
			}
			if n := len(r.Firings); n > 0 {
				r.Firings[n-1].GasOut = res.Gas
				if res.Err != nil {
					r.Firings[n-1].RealErr = res.Err.Error()
				}
			}
		}
	}
	host := &world.Host{
		Bound: func(contract common.Address, cut atypes.PointCut) ([]*atypes.AspectCode, error) {
			r.Provider = append(r.Provider, fmt.Sprintf("%x %s", contract[:], cut))
			id, ok := boundID[contract]
			// the answer does not depend on the join-point switch: with the switch off the EVM must not ask at all, and
			// if it does, the bound Aspects run and show up as unexpected executions
			_ = jpOn
			if !ok || s.Bound&(1<<uint(id)) == 0 {
				return nil, nil
			}
			pre := cut == atypes.PRE_CONTRACT_CALL_METHOD
			// the first answer of this join point may be a provider failure
			a := nextAnswer(pre)
			if a.Kind == 4 {
				rec.All = append(rec.All, fmt.Sprintf("P! %x %s", contract[:], cut))
				r.Firings = append(r.Firings, RFiring{Pre: pre, Contract: contract, Answer: a, Err: "provider", At: len(rec.All) - 1})
				return nil, errProvider
			}
			if world.RealRunner {
				// real runtime: the answer selects the WASM module (one Aspect per join point; reverts need the host
				// API and are run as traps)
				if a.Kind == 2 {
					a.Kind = 3
					r.Answers[len(r.Answers)-1] = a
				}
				realQueue = append(realQueue, a)
				return []*atypes.AspectCode{{AspectId: AspectIDs[0].Hex(), Version: 1, Code: WasmFor(a.Kind)}}, nil
			}
			pendingProvider[string(cut)+string(contract[:])] = &a
			var out []*atypes.AspectCode
			for i := 0; i < s.NAspects; i++ {
				out = append(out, &atypes.AspectCode{AspectId: AspectIDs[i].Hex(), Version: 1})
			}
			return out, nil
		},
		JoinPoint: func(aspect common.Address, cut atypes.PointCut, gas uint64, block int64, contract common.Address, req proto.Message) ([]byte, uint64, error) {
			pre := cut == atypes.PRE_CONTRACT_CALL_METHOD
			var a Answer
			k := string(cut) + string(contract[:])
			if p := pendingProvider[k]; p != nil {
				a = *p
				delete(pendingProvider, k)
			} else {
				a = nextAnswer(pre)
				if a.Kind == 4 {
					a.Kind = 3
					r.Answers[len(r.Answers)-1] = a
				}
			}
			f := RFiring{Pre: pre, Contract: contract, Aspect: aspect, GasIn: gas, Answer: a}
			switch q := req.(type) {
			case *atypes.PreContractCallInput:
				c := q.Call
				f.From, f.To, f.Data, f.Value = common.BytesToAddress(c.From), common.BytesToAddress(c.To), append([]byte{}, c.Data...), append([]byte{}, c.Value...)
				if c.Index != nil {
					f.Index = *c.Index
				}
				if c.Gas != nil {
					f.ReqGas = *c.Gas
				}
				if q.Block != nil && q.Block.Number != nil {
					f.Block = *q.Block.Number
				}
			case *atypes.PostContractCallInput:
				c := q.Call
				f.From, f.To, f.Data, f.Value = common.BytesToAddress(c.From), common.BytesToAddress(c.To), append([]byte{}, c.Data...), append([]byte{}, c.Value...)
				if c.Index != nil {
					f.Index = *c.Index
				}
				if c.Gas != nil {
					f.ReqGas = *c.Gas
				}
				if q.Block != nil && q.Block.Number != nil {
					f.Block = *q.Block.Number
				}
				f.Ret = append([]byte{}, c.Ret...)
				if c.Error != nil {
					f.Err = *c.Error
				}
			}
			var ret []byte
			var err error
			left := gas
			burn := func() {
				if a.Burn == BurnAll || a.Burn > gas {
					left = 0
				} else {
					left = gas - a.Burn
				}
			}
			switch a.Kind {
			case 0:
				burn()
			case 1:
				left, err = 0, errors.New("out of gas")
			case 2:
				ret, err = RevertRet, run.ErrExecutionReverted
			case 3:
				burn()
				err = errOther
			}
			f.GasOut = left
			rec.All = append(rec.All, fmt.Sprintf("J %s %x asp=%x gas=%d->%d", cut, contract[:], aspect[:], gas, left))
			f.At = len(rec.All) - 1
			r.Firings = append(r.Firings, f)
			return ret, left, err
		},
	}
	transfer := func(db avm.StateDB, from, to common.Address, v *big.Int) {
		t := RTransfer{From: from, To: to, Amount: new(big.Int).Set(v), FromBefore: new(big.Int).Set(db.GetBalance(from)), ToBefore: new(big.Int).Set(db.GetBalance(to))}
		db.SubBalance(from, v)
		db.AddBalance(to, v)
		t.FromAfter, t.ToAfter = new(big.Int).Set(db.GetBalance(from)), new(big.Int).Set(db.GetBalance(to))
		r.Transfers = append(r.Transfers, t)
	}
	rec.OnEvent = o.OnEvent
	if o.BeforeNew != nil {
		o.BeforeNew()
	}
	var logger avm.EVMLogger = rec
	if o.Logger != nil {
		logger = o.Logger
	}
	env := world.NewA(cs, world.AOpts{Tracer: logger, Host: host, Transfer: transfer, JPOff: false})
	r.Env = env
	rec.Refund = nil
	modes := o.Modes
	if len(modes) == 0 {
		modes = []bool{s.JPOn}
	}
	for _, on := range modes {
		if on {
			env.EVM.AspectCall()
		} else {
			env.EVM.CloseAspectCall()
		}
		jpOn = on
		// hosts reuse an EVM for the next message through Reset: with unchanged arguments it must change nothing
		env.EVM.Reset(env.EVM.TxContext, env.EVM.StateDB)
		env.EVM.SetBlockContext(env.BlockCtx) // likewise for the block context the host built (an EVM reused across blocks)
		inv := RInv{JPOn: on, EventStart: len(rec.All), FiringStart: len(r.Firings), AnswerStart: len(r.Answers), TransferStart: len(r.Transfers)}
		ret, _, gas, err, p := env.Call(cs)
		inv.Ret, inv.Gas, inv.Err, inv.Panic = ret, gas, err, p
		r.Invs = append(r.Invs, inv)
		r.Ret, r.Gas, r.Err, r.Panic = ret, gas, err, p
		if p != "" {
			break
		}
	}
	return r
}

// RInv is one top-level invocation of a run.
type RInv struct {
	JPOn                                                bool
	Ret                                                 []byte
	Gas                                                 uint64
	Err                                                 error
	Panic                                               string
	EventStart, FiringStart, AnswerStart, TransferStart int
}

// Events returns the interleaved event log (EVM events, Aspect enter/exit, stub executions).
func (r *Run) Events() []string { return r.Rec.All }

// ErrClass classifies an error text the way the model does.
func ErrClass(e string) string {
	switch {
	case e == "":
		return ""
	case strings.Contains(e, "execution reverted"):
		return "revert"
	}
	return "halt"
}
