package scn

import (
	"encoding/hex"
	"strings"
)

// Tiny hand-assembled WASM Aspects for the real-runtime conformance run (binary built with tag realrunner). They
// were produced from this WAT (N = loop count, TAIL = "nop" / "unreachable"):
//
//	(module
//	  (memory (export "memory") 1)
//	  (global $heap (mut i32) (i32.const 1024))
//	  (func (export "__aspect_start__"))
//	  (func (export "allocate") (param i32) (result i32) (local i32)
//	    global.get $heap  local.set 1
//	    global.get $heap  local.get 0  i32.add  global.set $heap
//	    local.get 1)
//	  (func (export "execute") (param i32 i32) (result i32) (local i32)
//	    i32.const N  local.set 2
//	    loop  local.get 2  i32.const 1  i32.sub  local.tee 2  br_if 0  end
//	    TAIL
//	    i32.const 0))
const (
	// N = 100_000_000: spins until the metered gas is exhausted
	wasmSpinHex = "0061736d01000000010f0360000060017f017f60027f7f017f03040300010205030100010607017f014180080b073204066d656d6f72790200105f5f6173706563745f73746172745f5f000008616c6c6f636174650001076578656375746500020a300302000b1101017f23002101230020006a240020010b1901017f4180c2d72f21020340200241016b22020d000b41000b000e046e616d65070701000468656170"
	// N = 1000 then `unreachable`: burns gas, then traps (a failure that is neither out-of-gas nor a revert)
	wasmBurnTrapHex = "0061736d01000000010f0360000060017f017f60027f7f017f03040300010205030100010607017f014180080b073204066d656d6f72790200105f5f6173706563745f73746172745f5f000008616c6c6f636174650001076578656375746500020a2f0302000b1101017f23002101230020006a240020010b1801017f41e80721020340200241016b22020d000b0041000b000e046e616d65070701000468656170"
)

func mustHex(s string) []byte {
	b, err := hex.DecodeString(s)
	if err != nil {
		panic(err)
	}
	return b
}

// WasmFor returns the module whose behaviour corresponds to an answer kind: 0 succeeds after burning gas, 1 runs
// out of gas, anything else traps after burning gas.
func WasmFor(kind int) []byte {
	switch kind {
	case 0:
		// the trap module with `unreachable` (0x00) replaced by `nop` (0x01)
		h := wasmBurnTrapHex
		i := strings.Index(h, "0d000b0041000b")
		if i < 0 {
			panic("wasm layout")
		}
		return mustHex(h[:i] + "0d000b0141000b" + h[i+14:])
	case 1:
		return mustHex(wasmSpinHex)
	}
	return mustHex(wasmBurnTrapHex)
}
