// Package fw is the check framework: worker sharding, counters, violation triage against known_findings.txt,
// replay files and evidence files.
package fw

import (
	"encoding/binary"
	"encoding/json"
	"fmt"
	"hash/fnv"
	"os"
	"sort"
	"strings"
	"time"
)

// Violation is one property violation found by a worker.
type Violation struct {
	Sig    string          `json:"sig"`    // (site, symptom) signature, matched against known_findings.txt
	Detail string          `json:"detail"` // human-readable expected/observed
	Case   json.RawMessage `json:"case"`   // the concrete case, enough to replay it
}

// W is the state of one worker process.
type W struct {
	ID       string
	Idx, N   int
	Tier     string
	Seed     int64
	Deadline time.Time
	SkipSet  map[int64]bool // cases that killed an earlier attempt of this worker: not run again
	Progress *os.File

	Evals       int64
	Transitions int64
	Skipped     int64
	states      map[uint64]struct{}
	nontrivial  map[uint64]struct{}
	Samples     []json.RawMessage
	Violations  []Violation
	VioCount    map[string]int64
	Extras      map[string]int64
	Truncated   bool
	Notes       []string
	caseCounter int64
	// crash-aware checks: periodic checkpoints let a restarted worker continue after the case that killed it
	CkptDir    string
	ResumeFrom int64
	lastCkpt   time.Time
}

func NewW(id string, idx, n int, tier string, seed int64) *W {
	return &W{ID: id, Idx: idx, N: n, Tier: tier, Seed: seed, states: map[uint64]struct{}{}, nontrivial: map[uint64]struct{}{},
		VioCount: map[string]int64{}, Extras: map[string]int64{}, SkipSet: map[int64]bool{}}
}

func (w *W) Thorough() bool { return w.Tier == "thorough" }

// Mine advances the global case counter and reports whether this worker owns the case.
func (w *W) Mine() bool {
	i := w.caseCounter
	if w.CkptDir != "" && i >= w.ResumeFrom && time.Since(w.lastCkpt) > 250*time.Millisecond {
		w.lastCkpt = time.Now()
		w.Finish(w.CkptDir) // state after all cases < i
	}
	w.caseCounter++
	if i < w.ResumeFrom {
		return false // executed by an earlier attempt of this worker (results restored from its checkpoint)
	}
	if w.N > 1 && int(i%int64(w.N)) != w.Idx {
		return false
	}
	if w.SkipSet[i] {
		return false
	}
	return true
}

// MineKey decides ownership by a structural key instead of the running counter (for bodies whose later choice
// points depend on the execution, so that every execution of one structure lands on the same worker).
func (w *W) MineKey(h uint64) bool {
	return w.N <= 1 || int(h%uint64(w.N)) == w.Idx
}

// CaseIndex is the index of the case most recently offered to Mine.
func (w *W) CaseIndex() int64 { return w.caseCounter - 1 }

// MarkProgress records, before a risky case is run, which case is about to run (so that a worker death is
// attributed to it).
func (w *W) MarkProgress(desc string) {
	if w.Progress != nil {
		fmt.Fprintf(w.Progress, "%d\t%s\n", w.CaseIndex(), desc)
	}
}

func (w *W) Expired() bool {
	if w.Truncated {
		return true
	}
	if !w.Deadline.IsZero() && time.Now().After(w.Deadline) {
		w.Truncated = true
		return true
	}
	return false
}

func Hash(parts ...string) uint64 {
	h := fnv.New64a()
	for _, p := range parts {
		h.Write([]byte(p))
		h.Write([]byte{0})
	}
	return h.Sum64()
}

func HashBytes(b []byte) uint64 {
	h := fnv.New64a()
	h.Write(b)
	return h.Sum64()
}

func (w *W) State(h uint64)          { w.states[h] = struct{}{} }
func (w *W) Nontrivial(h uint64)     { w.nontrivial[h] = struct{}{} }
func (w *W) Extra(k string, n int64) { w.Extras[k] += n }

func (w *W) Sample(v any) {
	if len(w.Samples) < 3 {
		b, _ := json.Marshal(v)
		w.Samples = append(w.Samples, b)
	}
}

// Violate records a violation (at most 3 concrete cases per signature per worker; all are counted).
func (w *W) Violate(sig, detail string, c any) {
	w.VioCount[sig]++
	if w.VioCount[sig] > 3 {
		return
	}
	b, _ := json.Marshal(c)
	w.Violations = append(w.Violations, Violation{Sig: sig, Detail: detail, Case: b})
}

// Result is what a worker hands to the master.
type Result struct {
	Idx         int               `json:"idx"`
	Evals       int64             `json:"evals"`
	Transitions int64             `json:"transitions"`
	Skipped     int64             `json:"skipped"`
	Samples     []json.RawMessage `json:"samples"`
	Violations  []Violation       `json:"violations"`
	VioCount    map[string]int64  `json:"vio_count"`
	Extras      map[string]int64  `json:"extras"`
	Truncated   bool              `json:"truncated"`
	Notes       []string          `json:"notes"`
	Cases       int64             `json:"cases"`
}

func writeSet(path string, m map[uint64]struct{}) error {
	buf := make([]byte, 0, 8*len(m))
	var tmp [8]byte
	for k := range m {
		binary.LittleEndian.PutUint64(tmp[:], k)
		buf = append(buf, tmp[:]...)
	}
	return os.WriteFile(path, buf, 0o644)
}

func readSet(path string, into map[uint64]struct{}) {
	b, err := os.ReadFile(path)
	if err != nil {
		return
	}
	for i := 0; i+8 <= len(b); i += 8 {
		into[binary.LittleEndian.Uint64(b[i:])] = struct{}{}
	}
}

// Finish writes the worker's result files into dir.
func (w *W) Finish(dir string) error {
	r := Result{Idx: w.Idx, Evals: w.Evals, Transitions: w.Transitions, Skipped: w.Skipped, Samples: w.Samples, Violations: w.Violations,
		VioCount: w.VioCount, Extras: w.Extras, Truncated: w.Truncated, Notes: w.Notes, Cases: w.caseCounter}
	b, _ := json.Marshal(r)
	if err := writeSet(fmt.Sprintf("%s/w%d.states", dir, w.Idx), w.states); err != nil {
		return err
	}
	if err := writeSet(fmt.Sprintf("%s/w%d.nontrivial", dir, w.Idx), w.nontrivial); err != nil {
		return err
	}
	return os.WriteFile(fmt.Sprintf("%s/w%d.json", dir, w.Idx), b, 0o644)
}

// Restore loads the checkpoint an earlier attempt of this worker left in dir and returns the case index to resume from.
func (w *W) Restore(dir string) {
	b, err := os.ReadFile(fmt.Sprintf("%s/w%d.json", dir, w.Idx))
	if err != nil {
		return
	}
	var r Result
	if json.Unmarshal(b, &r) != nil {
		return
	}
	w.Evals, w.Transitions, w.Skipped, w.Samples, w.Violations = r.Evals, r.Transitions, r.Skipped, r.Samples, r.Violations
	if r.VioCount != nil {
		w.VioCount = r.VioCount
	}
	if r.Extras != nil {
		w.Extras = r.Extras
	}
	w.Notes = r.Notes
	readSet(fmt.Sprintf("%s/w%d.states", dir, w.Idx), w.states)
	readSet(fmt.Sprintf("%s/w%d.nontrivial", dir, w.Idx), w.nontrivial)
	w.ResumeFrom = r.Cases
}

// Merged is the master's view over all workers.
type Merged struct {
	Evals, Transitions, Skipped int64
	States, Nontrivial          int64
	Samples                     []json.RawMessage
	Violations                  []Violation
	VioCount                    map[string]int64
	Extras                      map[string]int64
	Truncated                   bool
	Notes                       []string
}

func Merge(dir string, n int, extraViolations []Violation) (*Merged, error) {
	m := &Merged{VioCount: map[string]int64{}, Extras: map[string]int64{}}
	states := map[uint64]struct{}{}
	nontriv := map[uint64]struct{}{}
	for i := 0; i < n; i++ {
		b, err := os.ReadFile(fmt.Sprintf("%s/w%d.json", dir, i))
		if err != nil {
			return nil, fmt.Errorf("worker %d left no result: %v", i, err)
		}
		var r Result
		if err := json.Unmarshal(b, &r); err != nil {
			return nil, err
		}
		m.Evals += r.Evals
		m.Transitions += r.Transitions
		m.Skipped += r.Skipped
		if len(m.Samples) < 5 {
			m.Samples = append(m.Samples, r.Samples...)
		}
		m.Violations = append(m.Violations, r.Violations...)
		for k, v := range r.VioCount {
			m.VioCount[k] += v
		}
		for k, v := range r.Extras {
			m.Extras[k] += v
		}
		m.Truncated = m.Truncated || r.Truncated
		m.Notes = append(m.Notes, r.Notes...)
		readSet(fmt.Sprintf("%s/w%d.states", dir, i), states)
		readSet(fmt.Sprintf("%s/w%d.nontrivial", dir, i), nontriv)
	}
	for _, v := range extraViolations {
		m.Violations = append(m.Violations, v)
		m.VioCount[v.Sig]++
	}
	if len(m.Samples) > 5 {
		m.Samples = m.Samples[:5]
	}
	m.States = int64(len(states))
	m.Nontrivial = int64(len(nontriv))
	return m, nil
}

// Finding is one line of known_findings.txt.
type Finding struct {
	Fixed    bool
	Property string
	Sig      string // for open findings: exact signature
	Text     string
}

// LoadFindings parses /verif/known_findings.txt. Lines:
//
//	open: property=<id> sig=<signature> :: <what fails>
//	fixed: property=<id> <commit> <what failed>
func LoadFindings(path string) ([]Finding, error) {
	b, err := os.ReadFile(path)
	if err != nil {
		if os.IsNotExist(err) {
			return nil, nil
		}
		return nil, err
	}
	var out []Finding
	for _, l := range strings.Split(string(b), "\n") {
		l = strings.TrimSpace(l)
		if l == "" || strings.HasPrefix(l, "#") {
			continue
		}
		switch {
		case strings.HasPrefix(l, "fixed:"):
			f := Finding{Fixed: true, Text: strings.TrimSpace(l[len("fixed:"):])}
			for _, tok := range strings.Fields(f.Text) {
				if strings.HasPrefix(tok, "property=") {
					f.Property = tok[len("property="):]
				}
			}
			out = append(out, f)
		case strings.HasPrefix(l, "open:"):
			rest := strings.TrimSpace(l[len("open:"):])
			f := Finding{}
			parts := strings.SplitN(rest, "::", 2)
			if len(parts) == 2 {
				f.Text = strings.TrimSpace(parts[1])
			}
			for _, tok := range strings.Fields(parts[0]) {
				if strings.HasPrefix(tok, "property=") {
					f.Property = tok[len("property="):]
				}
				if strings.HasPrefix(tok, "sig=") {
					f.Sig = tok[len("sig="):]
				}
			}
			if f.Property == "" || f.Sig == "" {
				return nil, fmt.Errorf("known_findings: malformed line %q", l)
			}
			out = append(out, f)
		default:
			return nil, fmt.Errorf("known_findings: malformed line %q", l)
		}
	}
	return out, nil
}

// Evidence mirrors EVIDENCE.schema.json.
type Evidence struct {
	PropertyID  string         `json:"property_id"`
	Tier        string         `json:"tier"`
	Seed        int64          `json:"seed"`
	Level       string         `json:"level"`
	Coverage    map[string]any `json:"coverage"`
	Assumptions []string       `json:"assumptions"`
	WallS       float64        `json:"wall_s"`
	Violations  int            `json:"violations"`
}

func WriteEvidence(path string, e *Evidence) error {
	b, err := json.MarshalIndent(e, "", " ")
	if err != nil {
		return err
	}
	tmp := path + ".tmp"
	if err := os.WriteFile(tmp, b, 0o644); err != nil {
		return err
	}
	return os.Rename(tmp, path)
}

func SortedKeys(m map[string]int64) []string {
	ks := make([]string, 0, len(m))
	for k := range m {
		ks = append(ks, k)
	}
	sort.Strings(ks)
	return ks
}
