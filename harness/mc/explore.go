// Package mc is the small model-checking library of the /verif harness: a stateless depth-first explorer of
// choice vectors (Explore), an explicit-state breadth-first search over operation histories (BFS) and a
// cooperative scheduler for goroutine interleavings (Sched, sched.go).
package mc

import "fmt"

// Ctx is handed to a nondeterministic harness body. Every open decision of the body is resolved through
// Choose (structure: enumerated completely) or Deviate (environment answer / scheduling: answer 0 is the
// default, every non-default answer costs one deviation, and executions are enumerated up to a deviation bound).
type Ctx struct {
	prefix []point
	free   []int // replay mode: choices without recorded arities
	trace  []point
	cost   int
	bound  int
}

type point struct {
	n   int
	c   int
	dev bool
}

// DivergenceError is raised (as a panic) when a replayed prefix meets a choice point of a different shape than
// the one recorded: the body is not a deterministic function of its choices. This is a harness error, never a
// property verdict.
type DivergenceError struct{ Msg string }

func (d DivergenceError) Error() string { return "mc: replay divergence: " + d.Msg }

func (c *Ctx) next(n int, dev bool) int {
	if n <= 0 {
		panic(fmt.Sprintf("mc: choice of arity %d", n))
	}
	i := len(c.trace)
	ch := 0
	if i < len(c.prefix) {
		p := c.prefix[i]
		if p.n != n || p.dev != dev {
			panic(DivergenceError{fmt.Sprintf("choice point %d: recorded arity %d dev=%v, now arity %d dev=%v", i, p.n, p.dev, n, dev)})
		}
		ch = p.c
	} else if c.free != nil && i < len(c.free) {
		ch = c.free[i]
		if ch < 0 || ch >= n {
			panic(DivergenceError{fmt.Sprintf("choice point %d: replayed choice %d out of range for arity %d", i, ch, n)})
		}
	}
	if dev && ch != 0 {
		c.cost++
	}
	c.trace = append(c.trace, point{n, ch, dev})
	return ch
}

// Choose resolves a structural decision with n alternatives; all of them are explored.
func (c *Ctx) Choose(n int) int { return c.next(n, false) }

// Deviate resolves an environment/scheduling decision with n alternatives; alternative 0 is the default and is
// free, any other alternative costs one deviation. When the deviation budget of this execution is exhausted the
// explorer never selects a non-default alternative here.
func (c *Ctx) Deviate(n int) int { return c.next(n, true) }

// Cost is the number of non-default answers taken so far in this execution.
func (c *Ctx) Cost() int { return c.cost }

// Budget reports how many more deviations this execution may take.
func (c *Ctx) Budget() int { return c.bound - c.cost }

// Choices returns the choice vector of the execution so far.
func (c *Ctx) Choices() []int {
	out := make([]int, len(c.trace))
	for i, p := range c.trace {
		out[i] = p.c
	}
	return out
}

// Stats reports what an exploration covered.
type Stats struct {
	Executions   int64
	ChoicePoints int64
	MaxDepth     int
	ByCost       map[int]int64
	Complete     bool // false if stop() cut the exploration short
}

// Explore enumerates every execution of body whose number of non-default Deviate answers is <= bound.
// stop (may be nil) is polled between executions; returning true ends the exploration with Complete=false.
func Explore(bound int, body func(*Ctx), stop func() bool) Stats {
	st := Stats{ByCost: map[int]int64{}, Complete: true}
	var prefix []point
	for {
		c := &Ctx{prefix: prefix, bound: bound}
		body(c)
		if len(c.trace) < len(prefix) {
			panic(DivergenceError{fmt.Sprintf("execution ended after %d choice points, prefix has %d", len(c.trace), len(prefix))})
		}
		st.Executions++
		st.ChoicePoints += int64(len(c.trace))
		if len(c.trace) > st.MaxDepth {
			st.MaxDepth = len(c.trace)
		}
		st.ByCost[c.cost]++
		// next prefix: deepest choice point that still has an unexplored alternative within the bound
		costBefore := make([]int, len(c.trace)+1)
		for i, p := range c.trace {
			costBefore[i+1] = costBefore[i]
			if p.dev && p.c != 0 {
				costBefore[i+1]++
			}
		}
		i := len(c.trace) - 1
		for ; i >= 0; i-- {
			p := c.trace[i]
			if p.c+1 >= p.n {
				continue
			}
			if p.dev && costBefore[i]+1 > bound {
				continue
			}
			break
		}
		if i < 0 {
			return st
		}
		prefix = append(append([]point{}, c.trace[:i]...), point{c.trace[i].n, c.trace[i].c + 1, c.trace[i].dev})
		if stop != nil && stop() {
			st.Complete = false
			return st
		}
	}
}

// Replay runs body once along a fixed choice vector (used by replay files). Choices beyond the vector are 0;
// a recorded choice that is out of range for the arity met is a DivergenceError.
func Replay(choices []int, body func(*Ctx)) {
	c := &Ctx{bound: 1 << 30, free: choices}
	body(c)
}
