package mc

// BFS is an explicit-state breadth-first search over operation histories of a live object that cannot be
// cloned: a state is represented by the shortest history reaching it; a successor is computed by replaying that
// history on a fresh object and applying one more operation. The visited set is keyed by a canonical rendering
// of the object's state supplied by the caller.
type BFS struct {
	NumOps   int                                       // size of the operation alphabet
	Run      func(history []int) (key string, ok bool) // replays history on a fresh object, checks invariants on the last transition; ok=false prunes (violation recorded by caller)
	MaxDepth int
	Stop     func() bool

	States      int64
	Transitions int64
	DepthDone   int
	Complete    bool
	Frontier    int64 // states at MaxDepth left unexpanded
}

func (b *BFS) Search() {
	seen := map[string]struct{}{}
	k0, _ := b.Run(nil)
	seen[k0] = struct{}{}
	b.States = 1
	frontier := [][]int{nil}
	b.Complete = true
	for depth := 0; depth < b.MaxDepth && len(frontier) > 0; depth++ {
		var next [][]int
		for _, h := range frontier {
			for op := 0; op < b.NumOps; op++ {
				nh := append(append(make([]int, 0, len(h)+1), h...), op)
				k, ok := b.Run(nh)
				b.Transitions++
				if !ok {
					continue
				}
				if _, dup := seen[k]; !dup {
					seen[k] = struct{}{}
					b.States++
					next = append(next, nh)
				}
			}
			if b.Stop != nil && b.Stop() {
				b.Complete = false
				b.Frontier = int64(len(next))
				return
			}
		}
		frontier = next
		b.DepthDone = depth + 1
	}
	b.Frontier = int64(len(frontier))
}
