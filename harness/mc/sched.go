package mc

import "fmt"

// Sched is a cooperative scheduler on top of a Ctx: every thread body runs in its own goroutine and parks at
// each scheduling point (Point); exactly one goroutine runs at a time; which thread runs next is a Deviate
// (alternative 0 = the running thread if it is still enabled, otherwise the lowest enabled id), so switching away
// from a runnable thread costs one deviation = one preemption. A thread that exceeds its step horizon is reported
// as non-terminating instead of hanging the explorer.
type Sched struct {
	c         *Ctx
	threads   []*sthread
	back      chan int // thread id that parked or finished
	Horizon   int      // max scheduling points per thread (0 = 100000)
	Trace     []int    // the schedule: thread id chosen at every decision
	Horizoned bool
}

type sthread struct {
	wake   chan struct{}
	done   bool
	steps  int
	panicV any
}

func NewSched(c *Ctx) *Sched { return &Sched{c: c, back: make(chan int)} }

// Go registers a thread body. Bodies start parked; Run starts the schedule.
func (s *Sched) Go(body func(tid int)) int {
	tid := len(s.threads)
	t := &sthread{wake: make(chan struct{})}
	s.threads = append(s.threads, t)
	go func() {
		<-t.wake
		defer func() {
			if r := recover(); r != nil {
				t.panicV = r
			}
			t.done = true
			s.back <- tid
		}()
		body(tid)
	}()
	return tid
}

type horizonAbort struct{}

// Point is called by thread tid at a scheduling point.
func (s *Sched) Point(tid int) {
	t := s.threads[tid]
	t.steps++
	h := s.Horizon
	if h == 0 {
		h = 100000
	}
	if t.steps > h {
		s.Horizoned = true
		panic(horizonAbort{})
	}
	s.back <- tid
	<-t.wake
}

// Run executes the schedule to completion. Returns the panic value of each thread (nil if none).
func (s *Sched) Run() []any {
	cur := -1
	for {
		var enabled []int
		if cur >= 0 && !s.threads[cur].done {
			enabled = append(enabled, cur)
		}
		for i, t := range s.threads {
			if !t.done && i != cur {
				enabled = append(enabled, i)
			}
		}
		if len(enabled) == 0 {
			break
		}
		next := enabled[0]
		if len(enabled) > 1 {
			next = enabled[s.c.Deviate(len(enabled))]
		}
		s.Trace = append(s.Trace, next)
		cur = next
		s.threads[cur].wake <- struct{}{}
		who := <-s.back
		if who != cur {
			panic(fmt.Sprintf("mc.Sched: thread %d reported while %d was running", who, cur))
		}
	}
	out := make([]any, len(s.threads))
	for i, t := range s.threads {
		if _, ok := t.panicV.(horizonAbort); !ok {
			out[i] = t.panicV
		}
	}
	return out
}
