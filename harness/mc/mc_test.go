package mc

import (
	"fmt"
	"sort"
	"testing"
)

// The explorer must enumerate exactly the executions within the bound, each once.
func TestExploreCountsAndUniqueness(t *testing.T) {
	// 3 structural binary choices, 4 environment points of arity 3
	for bound := 0; bound <= 4; bound++ {
		seen := map[string]bool{}
		st := Explore(bound, func(c *Ctx) {
			key := ""
			for i := 0; i < 3; i++ {
				key += fmt.Sprint(c.Choose(2))
			}
			for i := 0; i < 4; i++ {
				key += fmt.Sprint(c.Deviate(3))
			}
			if seen[key] {
				t.Fatalf("execution %s explored twice", key)
			}
			seen[key] = true
		}, nil)
		// sum_{k<=bound} C(4,k) * 2^k deviation vectors, times 8 structures
		want, c := 0, 1
		for k := 0; k <= bound && k <= 4; k++ {
			want += c * (1 << k)
			c = c * (4 - k) / (k + 1)
		}
		want *= 8
		if int(st.Executions) != want || len(seen) != want || !st.Complete {
			t.Fatalf("bound %d: %d executions (%d distinct), want %d", bound, st.Executions, len(seen), want)
		}
	}
}

// Choice points that appear only on some paths must not confuse the enumeration.
func TestExploreDependentChoices(t *testing.T) {
	got := map[string]bool{}
	Explore(1, func(c *Ctx) {
		k := fmt.Sprint(c.Choose(3))
		if k == "1" {
			k += fmt.Sprint(c.Deviate(4))
			if c.Choose(2) == 1 {
				k += "x" + fmt.Sprint(c.Deviate(2))
			}
		}
		got[k] = true
	}, nil)
	var keys []string
	for k := range got {
		keys = append(keys, k)
	}
	sort.Strings(keys)
	want := []string{"0", "10", "10x0", "10x1", "11", "11x0", "12", "12x0", "13", "13x0", "2"}
	if fmt.Sprint(keys) != fmt.Sprint(want) {
		t.Fatalf("got %v\nwant %v", keys, want)
	}
}

// A body that is not a function of its choices is detected.
func TestExploreDivergence(t *testing.T) {
	defer func() {
		if _, ok := recover().(DivergenceError); !ok {
			t.Fatal("expected a DivergenceError")
		}
	}()
	n := 0
	Explore(1, func(c *Ctx) {
		n++
		c.Choose(2)
		if n == 1 {
			c.Choose(2)
		} else {
			c.Choose(3) // arity changed on replay of the prefix
		}
	}, nil)
}

// The scheduler enumerates every interleaving within the preemption bound; with an unbounded budget the number of
// schedules of two threads with a and b scheduling points is C(a+b, a).
func TestSchedInterleavings(t *testing.T) {
	run := func(bound, a, b int) (int, map[string]bool) {
		orders := map[string]bool{}
		st := Explore(bound, func(c *Ctx) {
			s := NewSched(c)
			var log []byte
			mk := func(name byte, n int) func(int) {
				return func(tid int) {
					for i := 0; i < n; i++ {
						log = append(log, name)
						s.Point(tid)
					}
				}
			}
			s.Go(mk('a', a))
			s.Go(mk('b', b))
			if p := s.Run(); p[0] != nil || p[1] != nil {
				t.Fatal(p)
			}
			orders[string(log)] = true
		}, nil)
		return int(st.Executions), orders
	}
	// unbounded: all C(a+b, a) orders of the a+b log entries
	_, orders := run(100, 3, 2)
	if len(orders) != 10 {
		t.Fatalf("unbounded: %d distinct interleavings, want 10", len(orders))
	}
	// bound 0: the single non-preemptive schedule aaabb
	_, orders = run(0, 3, 2)
	if len(orders) != 1 || !orders["aaabb"] {
		t.Fatalf("bound 0: %v", orders)
	}
	// bound 1: schedules with at most one preemption
	_, orders = run(1, 2, 2)
	for o := range orders {
		// a preemption = switching away from a thread that still has work
		pre := 0
		left := map[byte]int{'a': 2, 'b': 2}
		for i := 0; i < len(o); i++ {
			left[o[i]]--
			if i+1 < len(o) && o[i+1] != o[i] && left[o[i]] > 0 {
				pre++
			}
		}
		if pre > 1 {
			t.Fatalf("schedule %s has %d preemptions under bound 1", o, pre)
		}
	}
	if !orders["aabb"] || !orders["abba"] && !orders["abab"] == false && len(orders) < 3 {
		t.Fatalf("bound 1: %v", orders)
	}
}

// BFS visits every reachable state once and reports depth and frontier.
func TestBFS(t *testing.T) {
	// a counter modulo 5 with operations +1 and +2
	b := &BFS{NumOps: 2, MaxDepth: 10}
	b.Run = func(h []int) (string, bool) {
		v := 0
		for _, op := range h {
			v = (v + op + 1) % 5
		}
		return fmt.Sprint(v), true
	}
	b.Search()
	if b.States != 5 || !b.Complete || b.Frontier != 0 {
		t.Fatalf("states=%d complete=%v frontier=%d", b.States, b.Complete, b.Frontier)
	}
}
