package checks

import (
	"context"
	"encoding/json"
	"fmt"
	"os"
	"os/exec"
	"path/filepath"
	"strings"
	"sync"
	"time"

	avm "github.com/artela-network/artela-evm/vm"
	"github.com/ethereum/go-ethereum/common"
	"github.com/holiman/uint256"
	"verif/asm"
	"verif/fw"
	"verif/gen"
	"verif/mc"
	"verif/scn"
	"verif/world"
)

// C17 — concurrent EVM instances do not interfere; cancellation is safe.

// c17Body is one EVM instance's workload: run executes it, calling point at every scheduling point, and returns
// the canonical observation of the instance.
type c17Body struct {
	Name string
	Run  func(point func()) string
}

func c17CaseBody(name string, mk func() *world.Case, withHost bool) c17Body {
	return c17Body{Name: name, Run: func(point func()) string {
		cs := mk()
		rec := &world.ARec{Rec: world.Rec{NoData: true, OnEvent: func(byte) { point() }}}
		log := &hostLog{}
		opts := world.AOpts{Tracer: rec}
		if withHost {
			opts.Host = scriptedHost(0, log)
		}
		point() // before the EVM is constructed
		env := world.NewA(cs, opts)
		point()
		obs := env.Invoke(cs)
		point() // the host reads the results later: whatever the entry point handed back must stay what it was
		tr := env.EVM.Tracer()
		return obs.Key() + "\nerr=" + obs.Err + "\nhost=" + strings.Join(log.Calls, ";") + "\n" + strings.Join(rec.Lines, "\n") + "\n" + tr.StateChanges().VerifDump() + tr.CallTree().VerifDump()
	}}
}

func c17Bodies() []c17Body {
	var out []c17Body
	// plain program with a nested call, storage, log
	out = append(out, c17CaseBody("plain", func() *world.Case {
		a := asm.New().Push(5).Push(7).Op(asm.ADD).Push(0).Op(asm.MSTORE).Push(0x33).Push(2).Op(asm.SSTORE)
		a.Push(32).Push(0).Push(32).Push(0).Push(0).PushAddr(gen.CWrite).Push(60000).Op(asm.CALL, asm.POP).Push(0xaa).Push(0).Push(0).Op(asm.LOG1).Push(32).Push(0).Op(asm.RETURN)
		cs := gen.StdCase(world.Shanghai, a.Bytes(), "call", 300000)
		cs.Note = "plain"
		return cs
	}, false))
	push0 := asm.New().Op(asm.PUSH0).Push(0).Op(asm.MSTORE).Op(asm.PUSH0).Op(asm.POP).Push(32).Push(0).Op(asm.RETURN).Bytes()
	out = append(out, c17CaseBody("london+eip3855", func() *world.Case {
		cs := gen.StdCase(world.London, push0, "call", 100000)
		cs.ExtraEips = []int{3855}
		return cs
	}, false))
	out = append(out, c17CaseBody("london+{9999,3855}", func() *world.Case {
		cs := gen.StdCase(world.London, push0, "call", 100000)
		cs.ExtraEips = []int{9999, 3855}
		return cs
	}, false))
	out = append(out, c17CaseBody("london plain", func() *world.Case { return gen.StdCase(world.London, push0, "call", 100000) }, false))
	// journal opcodes over the shared decoder constants
	out = append(out, c17CaseBody("journal", func() *world.Case {
		a := asm.New()
		mstoreStr(a, 0x200, "s")
		emitJ(a, gen.RegisterRefVar(0x200, uint256.NewInt(7), gen.TypeA))
		emitJ(a, gen.RefJournal(uint256.NewInt(7), gen.TypeA))
		mstoreStr(a, 0x200, "v")
		emitJ(a, gen.RegisterValueVar(0x200, uint256.NewInt(0), 3, gen.TypeB))
		emitJ(a, gen.ValueJournal(uint256.NewInt(0), uint256.NewInt(3), uint256.NewInt(8), gen.TypeB))
		emitJ(a, gen.RefJournal(uint256.NewInt(7), gen.TypeA))
		a.Push(1).Push(0).Op(asm.MSTORE).Push(32).Push(0).Op(asm.RETURN)
		cs := gen.StdCase(world.Shanghai, a.Bytes(), "call", 300000)
		st := map[common.Hash]common.Hash{{}: gen.Pattern}
		for k, v := range gen.EncodeString(uint256.NewInt(7), []byte("hello")) {
			st[k] = v
		}
		cs.Accounts[1].Storage = st
		return cs
	}, false))
	// context-write precompile from two different callers
	for _, alt := range []bool{false, true} {
		alt := alt
		out = append(out, c17CaseBody(fmt.Sprintf("ctxwrite(alt=%v)", alt), func() *world.Case {
			var payload []byte
			mc.Replay(nil, func(c *mc.Ctx) { payload = gen.ExplorePayload66(c, 192) })
			cs, _ := gen.PrecompileCase(world.Shanghai, 0x66, gen.Reach{Kind: "call", Depth: 1}, payload, 200000, alt)
			return cs
		}, true))
	}
	// Aspects bound, burning gas, one failing
	out = append(out, c17Body{Name: "aspects", Run: func(point func()) string {
		s := &scn.Scn{Fork: world.Shanghai, JPOn: true, Bound: ^uint32(0), NAspects: 2, TopInLen: 32, Frames: 2,
			Root: &scn.Frame{ID: 0, Post: scn.ESstore, Term: scn.TStop, Call: &scn.Call{Kind: scn.KCall, Value: 1, InLen: 32, Target: scn.TgChild, Child: &scn.Frame{ID: 1, Pre: scn.EJournal, Term: scn.TReturn}}}}
		answers := []scn.Answer{{Burn: 100}, {}, {Burn: 1}, {}, {}, {Kind: 3}, {}, {}}
		r := scn.Exec(s, scn.RunOpts{OnEvent: func(byte) { point() }, BeforeNew: point, Answer: func(k int, pre bool) scn.Answer {
			if k < len(answers) {
				return answers[k]
			}
			return scn.Answer{}
		}})
		tr := r.Env.EVM.Tracer()
		return fmt.Sprintf("ret=%x gas=%d err=%v panic=%s\n%s\n%s%s", r.Ret, r.Gas, r.Err, r.Panic, strings.Join(r.Events(), "\n"), tr.StateChanges().VerifDump(), tr.CallTree().VerifDump())
	}})
	// a frame that reverts with data (what the entry point hands back must not be shared with anything another
	// instance can write to), after a nested call that returned data
	out = append(out, c17CaseBody("revert with data", func() *world.Case {
		a := asm.New().Push(32).Push(64).Push(0).Push(0).Push(0).PushAddr(gen.CRet).Push(60000).Op(asm.CALL, asm.POP)
		a.Push32(gen.Pattern).Push(0).Op(asm.MSTORE).Push32(common.HexToHash("0xa1a2a3a4a5a6a7a8a9aaabacadaeafb0b1b2b3b4b5b6b7b8b9babbbcbdbebfc0")).Push(32).Op(asm.MSTORE).Push(96).Push(0).Op(asm.REVERT)
		cs := gen.StdCase(world.Shanghai, a.Bytes(), "call", 300000)
		cs.Note = "revert with data"
		return cs
	}, false))
	return out
}

type c17Replay struct {
	Bodies  []int `json:"bodies"`
	Choices []int `json:"choices"`
}

func c17Schedule(bodies []c17Body, ids []int, c *mc.Ctx) (obs []string, panics []any, trace []int, horizon bool) {
	s := mc.NewSched(c)
	s.Horizon = 5000
	obs = make([]string, len(ids))
	for i, id := range ids {
		i, id := i, id
		s.Go(func(tid int) { obs[i] = bodies[id].Run(func() { s.Point(tid) }) })
	}
	panics = s.Run()
	return obs, panics, s.Trace, s.Horizoned
}

// ---------------------------------------------------------------- Cancel

type c17CancelProg struct {
	Name   string
	Case   func() *world.Case
	Frames int // frames open while looping
	Body   int // instructions of the longest loop body
}

func c17CancelProgs() []c17CancelProg {
	loop := asm.New().Op(asm.JUMPDEST).Push(1).Push(2).Op(asm.ADD, asm.POP).Push(0).Op(asm.JUMP).Bytes()
	loopAddr := world.ContractAddr(60)
	outer := asm.New().Op(asm.JUMPDEST).Push(0).Push(0).Push(0).Push(0).Push(0).PushAddr(loopAddr).Op(asm.GAS, asm.CALL, asm.POP).Push(0).Op(asm.JUMP).Bytes()
	return []c17CancelProg{
		{"flat loop", func() *world.Case { return gen.StdCase(world.Shanghai, loop, "call", 1<<40) }, 1, 7},
		{"loop calling a looping callee", func() *world.Case {
			cs := gen.StdCase(world.Shanghai, outer, "call", 1<<40)
			cs.Accounts = append(cs.Accounts, world.Account{Addr: loopAddr, Nonce: 1, Code: loop})
			return cs
		}, 2, 12},
		{"loop in init code", func() *world.Case {
			cs := gen.StdCase(world.Shanghai, nil, "create", 1<<40)
			cs.Input = loop
			return cs
		}, 1, 7},
	}
}

// c17Cancel runs the program and calls Cancel from another goroutine right after the k-th scheduling point.
func c17Cancel(p c17CancelProg, k int) (sig, detail string) {
	cs := p.Case()
	steps, after := 0, -1
	var env *world.AEnv
	rec := &world.ARec{Rec: world.Rec{NoData: true}}
	rec.OnEvent = func(kind byte) {
		steps++
		if kind == 'S' && after >= 0 {
			after++
		}
		if steps == k {
			var wg sync.WaitGroup
			wg.Add(1)
			go func() { defer wg.Done(); env.EVM.Cancel() }()
			wg.Wait()
			after = 0
		}
		if steps > k+100000 {
			panic("verif: execution did not stop after Cancel")
		}
	}
	probe := &startProbe{}
	env = world.NewA(cs, world.AOpts{Tracer: rec})
	_, _, _, _, pn := env.Call(cs)
	if pn != "" {
		if strings.Contains(pn, "did not stop") {
			return "cancel:not_stopped", fmt.Sprintf("%s: Cancel after scheduling point %d: the execution kept running for more than 100000 further events", p.Name, k)
		}
		return "cancel:panic", fmt.Sprintf("%s: Cancel after scheduling point %d: %s", p.Name, k, pn)
	}
	if after < 0 {
		return "harness", fmt.Sprintf("%s: execution ended before point %d", p.Name, k)
	}
	if bound := p.Frames*(p.Body+3) + 1; after > bound {
		return "cancel:not_prompt", fmt.Sprintf("%s: Cancel after scheduling point %d: %d further instructions executed (bound %d = open frames x loop body)", p.Name, k, after, bound)
	}
	if !env.EVM.Cancelled() {
		return "cancel:flag", "Cancelled() is false after Cancel"
	}
	env.EVM.Config.Tracer = probe
	if d := bookkeepingClosedNoFollow(env); d != "" {
		return "cancel:bookkeeping", fmt.Sprintf("%s: Cancel after scheduling point %d: %s", p.Name, k, d)
	}
	return "", ""
}

func bookkeepingClosedNoFollow(env *world.AEnv) string {
	if d := env.EVM.VerifDepth(); d != 0 {
		return fmt.Sprintf("call depth %d after return", d)
	}
	if env.EVM.Tracer().CallTree().Current() != nil {
		return "call-tree cursor not nil after return"
	}
	if env.EVM.VerifReadOnly() {
		return "static flag still set after return"
	}
	return ""
}

// ---------------------------------------------------------------- free-running race pass (auxiliary)

// C17Solo prints the observation of instance i run alone in this (fresh) process.
func C17Solo(i int) {
	fmt.Print(c17Bodies()[i].Run(func() {}))
}

// C17RacePass runs the thread bodies free-running on 16 goroutines (used by the -race binary).
func C17RacePass() {
	bodies := c17Bodies()
	var wg sync.WaitGroup
	for g := 0; g < 16; g++ {
		g := g
		wg.Add(1)
		go func() {
			defer wg.Done()
			for i := 0; i < 30; i++ {
				bodies[(g+i)%len(bodies)].Run(func() {})
				// a program with jumps whose code (hash) no other execution of this process has: anything cached
				// per code by the package is cold here, on every goroutine at once
				a := asm.New().Push(uint64(0x10000 + g<<8 + i)).Op(asm.POP) // PUSH3 x POP: bytes 0-4
				a.Push(8).Op(asm.JUMP, asm.JUMPDEST)                         // 5-8
				a.Push(1).Push(15).Op(asm.JUMPI, asm.INVALID, asm.JUMPDEST)  // 9-15
				// CREATE2 and KECCAK256 (address derivation and hashing must not go through state shared by instances)
				a.Push32(gen.Pattern).Push(0).Op(asm.MSTORE).Push(uint64(g<<8+i)).Push(32).Push(0).Push(0).Op(asm.CREATE2, asm.POP)
				a.Push(32).Push(0).Op(asm.KECCAK256, asm.POP)
				a.Push(0).Push(0).Op(asm.RETURN)
				cs := gen.StdCase(world.Shanghai, a.Bytes(), "call", 300000)
				env := world.NewA(cs, world.AOpts{})
				if obs := env.Invoke(cs); obs.Err != "" {
					panic("race pass: jump program failed: " + obs.Err)
				}
			}
		}()
	}
	// Cancel against a running loop
	for _, p := range c17CancelProgs() {
		cs := p.Case()
		cs.Gas = 50_000_000 // finite: the pass ends even if Cancel is ignored
		env := world.NewA(cs, world.AOpts{})
		wg.Add(1)
		go func() { defer wg.Done(); env.Call(cs) }()
		time.Sleep(2 * time.Millisecond)
		env.EVM.Cancel()
	}
	wg.Wait()
}

func init() {
	register(&Check{
		ID:        "C17",
		Level:     "model_checking",
		Technique: "stateless exploration of thread interleavings of real EVM instances under a cooperative scheduler (scheduling points: before EVM construction, before every instruction, at every frame and Aspect enter/exit), all schedules up to a preemption bound; every Cancel position against running loops; auxiliary free-running pass of the same bodies under the Go race detector",
		Rule: "(a) instances = {plain program with nested call/storage/log, London program with extra EIP 3855, London program for which PUSH0 must stay invalid, journal opcodes over the shared decoder constants, context-write precompile from two different callers, Aspects bound with burning and failing answers, a frame reverting with data after a nested call}; results are read after one more scheduling point (a host that looks at them later); every ordered pair (and selected triples) each on its own StateDB; all interleavings with <= k preemptions; oracle: every instance's canonical observation (result, event stream with gas, host callbacks, call tree, journal dump) equals its solo observation. (b) Cancel from another goroutine after each of the first N scheduling points of {flat loop, loop calling a looping callee, loop in init code}: no panic, at most (open frames x loop body + 1) further instructions, Cancelled() true, depth 0, call-tree cursor nil, static flag clear. (c) auxiliary: the same bodies free-running on 16 goroutines under -race; a race report fails the check. non-trivial = distinct schedules with at least one preemption",
		Assumptions: []string{"preemption points are callback boundaries; interference confined to a single instruction is visible only to the race pass", "the race pass is auxiliary evidence (sampling of real schedules), reported separately in the counters"},
		Bounds: func(t string) map[string]any {
			return map[string]any{"preemption_bound": map[string]int{"quick": 2, "thorough": 3}[t], "cancel_positions": map[string]int{"quick": 120, "thorough": 400}[t], "instances": len(c17Bodies())}
		},
		Quick:    80 * time.Second,
		Thorough: 40 * time.Minute,
		Run: func(w *fw.W) {
			bodies := c17Bodies()
			// solo observations come from pristine processes (one per instance), so that contamination between
			// executions of one process - sequential or interleaved - cannot hide in the baseline
			solo := make([]string, len(bodies))
			self, _ := os.Executable()
			for i := range bodies {
				out, err := exec.Command(self, "-prop", "C17", "-c17solo", fmt.Sprint(i)).Output()
				if err != nil {
					w.Notes = append(w.Notes, "HARNESS ERROR: C17 solo subprocess failed: "+err.Error())
					return
				}
				solo[i] = string(out)
			}
			if w.Idx == 0 {
				for i, b := range bodies {
					w.Evals++
					if got := b.Run(func() {}); got != solo[i] {
						w.Violate("sequential:interference", fmt.Sprintf("instance %q run in a process that executed other instances before differs from its run in a fresh process: %s", b.Name, firstDiffLine(solo[i], got)), map[string]any{"sequential": i})
					}
				}
			}
			bound := 2
			if w.Thorough() {
				bound = 3
			}
			var groups [][]int
			for i := range bodies {
				for j := range bodies {
					groups = append(groups, []int{i, j})
				}
			}
			groups = append(groups, []int{1, 3, 0}, []int{5, 6, 4}, []int{7, 5, 6}, []int{8, 0, 8})
			for gi, ids := range groups {
				if !w.MineKey(fw.Hash(fmt.Sprint(ids))) {
					continue
				}
				b := bound
				if len(ids) > 2 && !w.Thorough() {
					b = 1
				}
				st := mc.Explore(b, func(c *mc.Ctx) {
					obs, panics, trace, hz := c17Schedule(bodies, ids, c)
					w.Evals++
					w.Transitions += int64(len(trace))
					h := fw.Hash(fmt.Sprint(ids), fmt.Sprint(c.Choices()))
					w.State(h)
					if c.Cost() > 0 {
						w.Nontrivial(h)
					}
					if gi == 0 && w.Evals == 1 {
						w.Sample(map[string]any{"instances": []string{bodies[ids[0]].Name, bodies[ids[1]].Name}, "schedule": trace})
					}
					rp := c17Replay{ids, c.Choices()}
					if hz {
						w.Violate("schedule:horizon", fmt.Sprintf("instances %v: a thread exceeded its step horizon under schedule %v", ids, trace), rp)
						return
					}
					for i, p := range panics {
						if p != nil {
							w.Violate("schedule:panic", fmt.Sprintf("instance %s panicked under schedule %v: %v", bodies[ids[i]].Name, trace, p), rp)
							return
						}
					}
					for i, id := range ids {
						if obs[i] != solo[id] {
							other := ""
							for j, o := range ids {
								if j != i {
									other += bodies[o].Name + " "
								}
							}
							w.Violate("schedule:interference", fmt.Sprintf("instance %q run next to %sunder schedule %v differs from its solo run: %s", bodies[id].Name, other, trace, firstDiffLine(solo[id], obs[i])), rp)
							return
						}
					}
				}, func() bool { return w.Expired() })
				w.Extra("schedules", st.Executions)
			}
			// (b) Cancel positions
			n := 120
			if w.Thorough() {
				n = 400
			}
			for pi, p := range c17CancelProgs() {
				for k := 1; k <= n; k++ {
					if !w.MineKey(fw.Hash("cancel", fmt.Sprint(pi, k))) {
						continue
					}
					sig, detail := c17Cancel(p, k)
					w.Evals++
					w.Transitions += int64(k)
					h := fw.Hash("cancel", fmt.Sprint(pi, k))
					w.State(h)
					w.Nontrivial(h)
					w.Extra("cancel_positions", 1)
					if sig == "harness" {
						w.Notes = append(w.Notes, "HARNESS ERROR: C17 "+detail)
						return
					}
					if sig != "" {
						w.Violate(sig, detail, map[string]any{"cancel": pi, "k": k})
					}
				}
			}
			// (c) auxiliary race pass: one worker runs the -race binary
			if w.Idx == 0 {
				bin := filepath.Join(os.Getenv("VERIF_ROOT"), "build", "vcheck-race")
				if _, err := os.Stat(bin); err != nil {
					w.Notes = append(w.Notes, "race binary not built: auxiliary pass skipped")
					w.Extra("race_pass_skipped", 1)
					return
				}
				ctx, cancel := context.WithTimeout(context.Background(), 5*time.Minute)
				defer cancel()
				cmd := exec.CommandContext(ctx, bin, "-prop", "C17", "-racepass")
				cmd.Env = append(os.Environ(), "GORACE=halt_on_error=1 exitcode=66")
				out, err := cmd.CombinedOutput()
				if ctx.Err() != nil {
					w.Notes = append(w.Notes, "race pass did not finish within 5 minutes: auxiliary evidence missing for this run")
					w.Extra("race_pass_timed_out", 1)
					return
				}
				w.Extra("race_pass_runs", 1)
				if strings.Contains(string(out), "fatal error: concurrent map") {
					txt := string(out)
					if len(txt) > 3000 {
						txt = txt[:3000]
					}
					w.Violate("race:concurrent_map_access", "the free-running pass was aborted by the Go runtime (instances on separate states share a map):\n"+txt, map[string]any{"racepass": true})
				} else if strings.Contains(string(out), "DATA RACE") {
					txt := string(out)
					if len(txt) > 3000 {
						txt = txt[:3000]
					}
					w.Violate("race:data_race", "the free-running pass under the race detector reports:\n"+txt, map[string]any{"racepass": true})
				} else if err != nil {
					w.Notes = append(w.Notes, "HARNESS ERROR: race pass failed: "+err.Error()+"\n"+string(out))
				}
			}
		},
		Replay: func(raw json.RawMessage) []fw.Violation {
			var rp c17Replay
			var cn struct {
				Cancel *int `json:"cancel"`
				K      int  `json:"k"`
			}
			if json.Unmarshal(raw, &cn) == nil && cn.Cancel != nil {
				if sig, d := c17Cancel(c17CancelProgs()[*cn.Cancel], cn.K); sig != "" {
					return []fw.Violation{{Sig: sig, Detail: d, Case: raw}}
				}
				return nil
			}
			if err := json.Unmarshal(raw, &rp); err != nil || len(rp.Bodies) == 0 {
				return nil
			}
			bodies := c17Bodies()
			var vs []fw.Violation
			var sq struct {
				Sequential *int `json:"sequential"`
			}
			if json.Unmarshal(raw, &sq) == nil && sq.Sequential != nil {
				self, _ := os.Executable()
				for i := range bodies {
					out, _ := exec.Command(self, "-prop", "C17", "-c17solo", fmt.Sprint(i)).Output()
					if got := bodies[i].Run(func() {}); got != string(out) {
						vs = append(vs, fw.Violation{Sig: "sequential:interference", Detail: firstDiffLine(string(out), got), Case: raw})
					}
				}
				return vs
			}
			mc.Replay(rp.Choices, func(c *mc.Ctx) {
				obs, panics, trace, _ := c17Schedule(bodies, rp.Bodies, c)
				for i, id := range rp.Bodies {
					if panics[i] != nil {
						vs = append(vs, fw.Violation{Sig: "schedule:panic", Detail: fmt.Sprint(panics[i]), Case: raw})
					} else if solo := bodies[id].Run(func() {}); obs[i] != solo {
						vs = append(vs, fw.Violation{Sig: "schedule:interference", Detail: fmt.Sprintf("schedule %v: %s", trace, firstDiffLine(solo, obs[i])), Case: raw})
					}
				}
			})
			return vs
		},
	})
}

var _ = avm.ErrOutOfGas
