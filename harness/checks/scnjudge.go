package checks

import (
	"bytes"
	"fmt"
	"math/big"
	"sort"
	"strings"

	avm "github.com/artela-network/artela-evm/vm"
	"github.com/ethereum/go-ethereum/common"
	"verif/mc"
	"verif/scn"
	"verif/world"
)

// execScnSeq runs the scenario as a sequence of top-level invocations (join-point switch per invocation) for real
// with answers drawn from the explorer, then the model with the same answers.
func execScnSeq(c *mc.Ctx, s *scn.Scn, answers []scn.Answer, modes []bool, full bool) (*scn.Run, *scn.MResult) {
	r := scn.Exec(s, scn.RunOpts{Full: full, Modes: modes, Answer: func(k int, pre bool) scn.Answer { return answers[c.Deviate(len(answers))] }})
	return r, modelOf(s, r)
}

func replayScnSeq(s *scn.Scn, answers []scn.Answer, modes []bool, full bool) (*scn.Run, *scn.MResult) {
	r := scn.Exec(s, scn.RunOpts{Full: full, Modes: modes, Answer: func(k int, pre bool) scn.Answer {
		if k < len(answers) {
			return answers[k]
		}
		return scn.Answer{}
	}})
	return r, modelOf(s, r)
}

func modelOf(s *scn.Scn, r *scn.Run) *scn.MResult {
	m := scn.NewModel(s)
	for i, inv := range r.Invs {
		end := len(r.Answers)
		if i+1 < len(r.Invs) {
			end = r.Invs[i+1].AnswerStart
		}
		m.Invoke(inv.JPOn, r.Answers[inv.AnswerStart:end])
	}
	return m.Res()
}

type scnSeqReplay struct {
	Scn     *scn.Scn     `json:"scn"`
	Answers []scn.Answer `json:"answers"`
	Modes   []bool       `json:"modes"`
}

func anyPanic(r *scn.Run) string {
	for _, inv := range r.Invs {
		if inv.Panic != "" {
			return inv.Panic
		}
	}
	return ""
}

// ---------------------------------------------------------------- C05: firing sequence

func firingText(f scn.MFiring) string {
	k := "post"
	if f.Pre {
		k = "pre"
	}
	if f.Provider {
		return fmt.Sprintf("%s(%x) provider failure", k, f.Contract[16:])
	}
	return fmt.Sprintf("%s(%x) asp%d from=%x data=%x value=%d index=%d ret=%x err=%s", k, f.Contract[16:], f.Aspect, f.From[16:], f.Data, f.Value, f.Index, f.Ret, f.Err)
}

func rfiringText(f scn.RFiring) string {
	k := "post"
	if f.Pre {
		k = "pre"
	}
	if f.Err == "provider" && f.Aspect == (common.Address{}) {
		return fmt.Sprintf("%s(%x) provider failure", k, f.Contract[16:])
	}
	asp := -1
	for i, a := range scn.AspectIDs {
		if a == f.Aspect {
			asp = i
		}
	}
	return fmt.Sprintf("%s(%x) asp%d from=%x data=%x value=%d index=%d ret=%x err=%s", k, f.Contract[16:], asp, f.From[16:], f.Data, new(big.Int).SetBytes(f.Value), f.Index, f.Ret, scn.ErrClass(f.Err))
}

// c05Judge compares the observed Aspect executions with the expected firing sequence and checks their placement
// relative to the frame events of the debug tracer.
func c05Judge(s *scn.Scn, r *scn.Run, m *scn.MResult) (sig, detail string) {
	if p := anyPanic(r); p != "" {
		return "panic", p
	}
	n := len(m.Firings)
	if len(r.Firings) < n {
		n = len(r.Firings)
	}
	for i := 0; i < n; i++ {
		want, got := firingText(m.Firings[i]), rfiringText(r.Firings[i])
		if !m.Firings[i].Provider && r.Firings[i].Err != "provider" && r.Firings[i].To != r.Firings[i].Contract {
			return "firing:to_field", fmt.Sprintf("firing %d: request To=%x, join point of contract %x", i, r.Firings[i].To[16:], r.Firings[i].Contract[16:])
		}
		if rf := r.Firings[i]; want == got && !m.Firings[i].Provider && rf.Err != "provider" {
			// the request's own gas and block fields: the gas the frame has at the join point (what the first Aspect of
			// the join point is given) and the block the EVM executes in
			if m.Firings[i].Aspect == 0 && rf.ReqGas != rf.GasIn {
				return "firing:gas_field", fmt.Sprintf("Aspect execution %d (%s): the request announces %d gas, the frame has %d at the join point", i, got, rf.ReqGas, rf.GasIn)
			}
			if rf.Block != world.BlockNumber {
				return "firing:block_field", fmt.Sprintf("Aspect execution %d (%s): the request announces block %d, the EVM executes in block %d", i, got, rf.Block, world.BlockNumber)
			}
		}
		if want != got {
			kind := "payload"
			if m.Firings[i].Pre != r.Firings[i].Pre || m.Firings[i].Contract != r.Firings[i].Contract {
				kind = "sequence"
			}
			return "firing:" + kind, fmt.Sprintf("Aspect execution %d differs\nexpected: %s\nobserved: %s", i, want, got)
		}
	}
	if len(r.Firings) != len(m.Firings) {
		kind := "missing"
		extra := ""
		if len(r.Firings) > len(m.Firings) {
			kind = "unexpected"
			extra = rfiringText(r.Firings[n])
		} else {
			extra = firingText(m.Firings[n])
		}
		return "firing:" + kind, fmt.Sprintf("expected %d Aspect executions, observed %d; first %s: %s", len(m.Firings), len(r.Firings), kind, extra)
	}
	// placement
	type open struct {
		to     common.Address
		gas    uint64
		steps  int
		pre    int
		post   bool
		isCall bool
	}
	var stack []*open
	for i, l := range r.Events() {
		switch {
		case strings.HasPrefix(l, "B ") || strings.HasPrefix(l, "> "):
			j := strings.Index(l, " to=")
			var to common.Address
			copy(to[:], common.FromHex(l[j+4:j+44]))
			g, _ := fieldOf(l, "gas")
			stack = append(stack, &open{to: to, gas: g, isCall: strings.HasPrefix(l, "B ") || strings.Contains(l, "typ=f1 ")})
		case strings.HasPrefix(l, "E ") || strings.HasPrefix(l, "< "):
			if len(stack) > 0 {
				stack = stack[:len(stack)-1]
			}
		case strings.HasPrefix(l, "S "):
			if len(stack) > 0 {
				top := stack[len(stack)-1]
				if top.post {
					return "placement:step_after_post", fmt.Sprintf("event %d: an instruction of %x runs after its post join point: %s", i, top.to[16:], l)
				}
				top.steps++
			}
		case strings.HasPrefix(l, "J ") || strings.HasPrefix(l, "P! "):
			if len(stack) == 0 {
				return "placement:outside_frame", "join point fired outside any frame: " + l
			}
			top := stack[len(stack)-1]
			pre := strings.Contains(l, "preContractCall")
			if !strings.Contains(l, fmt.Sprintf("%x", top.to[:])) {
				return "placement:wrong_frame", fmt.Sprintf("event %d: join point %s fired while the innermost frame is %x", i, l, top.to[16:])
			}
			if pre {
				if top.steps > 0 || top.post {
					return "placement:pre_after_code", fmt.Sprintf("event %d: pre join point fired after %d instructions of the callee", i, top.steps)
				}
				if top.pre == 0 && strings.HasPrefix(l, "J ") {
					g, _ := fieldOf(strings.Replace(l, "->", " out=", 1), "gas")
					if g != top.gas {
						return "placement:pre_gas", fmt.Sprintf("event %d: first pre execution got %d gas, the frame was given %d", i, g, top.gas)
					}
				}
				top.pre++
			} else {
				top.post = true
			}
		}
	}
	return "", ""
}

// ---------------------------------------------------------------- C07: call-tree well-formedness (public API only)

func c07Judge(s *scn.Scn, r *scn.Run, m *scn.MResult) (sig, detail string) {
	if p := anyPanic(r); p != "" {
		return "panic", p
	}
	ct := r.Env.EVM.Tracer().CallTree()
	n := uint64(len(m.Nodes))
	if ct.Current() != nil {
		return "open_call", fmt.Sprintf("call %d is still open after the top-level call returned", ct.Current().Index)
	}
	seenAsChild := map[uint64]int{}
	for i := uint64(0); i < n+4; i++ {
		c := ct.FindCall(i)
		if i >= n {
			if c != nil {
				return "extra_node", fmt.Sprintf("FindCall(%d) is non-nil, the execution made %d call/create attempts", i, n)
			}
			continue
		}
		if c == nil {
			return "missing_node", fmt.Sprintf("FindCall(%d) is nil, the execution made %d call/create attempts", i, n)
		}
		if c.Index != i {
			return "index_mismatch", fmt.Sprintf("FindCall(%d) returns the node with index %d", i, c.Index)
		}
		top := m.Nodes[i].Parent < 0
		if top {
			if c.Parent != nil {
				return "top_has_parent", fmt.Sprintf("node %d is a top-level invocation but has parent %d", i, c.Parent.Index)
			}
		} else {
			if c.Parent == nil {
				return "no_parent", fmt.Sprintf("node %d has no parent", i)
			}
			if c.Parent.Index >= i {
				return "parent_index", fmt.Sprintf("node %d has parent %d (not smaller)", i, c.Parent.Index)
			}
			if ct.ParentOf(i) != c.Parent {
				return "parentof_mismatch", fmt.Sprintf("ParentOf(%d) disagrees with the node's Parent field", i)
			}
			if uint64(m.Nodes[i].Parent) != c.Parent.Index {
				return "wrong_parent", fmt.Sprintf("node %d has parent %d, the frame that issued it is node %d", i, c.Parent.Index, m.Nodes[i].Parent)
			}
		}
		kids := ct.ChildrenOf(i)
		if len(kids) != len(c.Children) {
			return "childrenof_mismatch", fmt.Sprintf("ChildrenOf(%d) disagrees with the node's Children field", i)
		}
		last := int64(-1)
		for _, k := range kids {
			if int64(k.Index) <= last {
				return "children_order", fmt.Sprintf("children of node %d are not strictly increasing: %v", i, c.ChildrenIndices())
			}
			last = int64(k.Index)
			if k.Parent != c {
				return "child_parent", fmt.Sprintf("node %d lists %d as child, whose parent is another node", i, k.Index)
			}
			seenAsChild[k.Index]++
		}
	}
	for i := uint64(0); i < n; i++ {
		want := 1
		if m.Nodes[i].Parent < 0 {
			want = 0
		}
		if seenAsChild[i] != want {
			return "child_listing", fmt.Sprintf("node %d appears %d times in children lists, expected %d", i, seenAsChild[i], want)
		}
	}
	if n > 0 && (ct.Root() == nil || ct.Root().Index != 0) {
		return "root", "Root() is not node 0"
	}
	return "", ""
}

// ---------------------------------------------------------------- C08: recorded attempts

func nodeErrClass(err error) string {
	if err == nil {
		return ""
	}
	return scn.ErrClass(err.Error())
}

// frameGas extracts, from the debug-tracer events, gas supplied to and used by each CALL / CREATE frame in entry order.
type frameGasRec struct {
	Supplied, Used uint64
	Err            string
}

func frameGas(events []string) []frameGasRec {
	var out []frameGasRec
	var stack []int
	for _, l := range events {
		switch {
		case strings.HasPrefix(l, "B ") || strings.HasPrefix(l, "> "):
			isNode := strings.HasPrefix(l, "B ") || strings.Contains(l, "typ=f1 ") || strings.Contains(l, "typ=f0 ") || strings.Contains(l, "typ=f5 ")
			if isNode {
				g, _ := fieldOf(l, "gas")
				out = append(out, frameGasRec{Supplied: g})
				stack = append(stack, len(out)-1)
			} else {
				stack = append(stack, -1)
			}
		case strings.HasPrefix(l, "E ") || strings.HasPrefix(l, "< "):
			if len(stack) > 0 {
				if i := stack[len(stack)-1]; i >= 0 {
					u, _ := fieldOf(l, "used")
					out[i].Used = u
					if j := strings.Index(l, " err="); j >= 0 {
						out[i].Err = l[j+5:]
					}
				}
				stack = stack[:len(stack)-1]
			}
		}
	}
	return out
}

func c08Judge(s *scn.Scn, r *scn.Run, m *scn.MResult) (sig, detail string) {
	if p := anyPanic(r); p != "" {
		return "panic", p
	}
	ct := r.Env.EVM.Tracer().CallTree()
	// frames that were entered announce themselves to the debug tracer in entry order
	fg := frameGas(r.Events())
	fi := 0
	for i, n := range m.Nodes {
		c := ct.FindCall(uint64(i))
		if c == nil {
			return "missing_attempt", fmt.Sprintf("attempt %d (%s) is not in the call tree", i, n)
		}
		if c.From != n.From {
			return "from", fmt.Sprintf("node %d: recorded caller %x, the call was issued by %x", i, c.From[16:], n.From[16:])
		}
		if (c.To == nil) != (n.To == nil) || c.To != nil && *c.To != *n.To {
			return "to", fmt.Sprintf("node %d: recorded target %v, expected %v", i, c.To, n.To)
		}
		if c.Value == nil || c.Value.ToBig().Cmp(new(big.Int).SetUint64(n.Value)) != 0 {
			return "value", fmt.Sprintf("node %d: recorded value %v, expected %d", i, c.Value, n.Value)
		}
		if !bytes.Equal(c.Data, n.Data) {
			cls := "data"
			if n.CallerID >= 0 && !n.Kind.IsCreate() && len(c.Data) == len(n.Data) {
				// issued by the CALL instruction, same length, other bytes: the record shares the caller's memory
				cls = "data_aliases_caller_memory"
			}
			return cls, fmt.Sprintf("node %d (%s): recorded input %x, the input at the moment of the call was %x", i, n, clip(c.Data), clip(n.Data))
		}
		entered := n.Refused == ""
		if entered {
			if fi >= len(fg) {
				return "harness", fmt.Sprintf("node %d entered but the debug tracer shows only %d frames", i, len(fg))
			}
			g := fg[fi]
			fi++
			if c.Gas == nil || !c.Gas.IsUint64() || c.Gas.Uint64() != g.Supplied {
				return "gas", fmt.Sprintf("node %d: recorded gas %v, the frame was given %d", i, c.Gas, g.Supplied)
			}
			if n.JPFailed == "" {
				// without a join-point failure the debug tracer's exit event is the reference's: used = supplied - handed back
				if c.RemainingGas != g.Supplied-g.Used {
					return "remaining_gas", fmt.Sprintf("node %d: recorded leftover %d, the frame handed back %d", i, c.RemainingGas, g.Supplied-g.Used)
				}
			}
			if n.Parent < 0 {
				// top-level invocations: what the entry point returned
				k := 0
				for j := 0; j < i; j++ {
					if m.Nodes[j].Parent < 0 {
						k++
					}
				}
				if k < len(r.Invs) && c.RemainingGas != r.Invs[k].Gas {
					return "remaining_gas", fmt.Sprintf("node %d: recorded leftover %d, the entry point returned %d", i, c.RemainingGas, r.Invs[k].Gas)
				}
			}
		} else {
			// refused up front: everything comes back except on a collision
			if c.Gas == nil || !c.Gas.IsUint64() {
				return "gas", fmt.Sprintf("node %d: recorded gas %v", i, c.Gas)
			}
			want := c.Gas.Uint64()
			if n.Refused == "collision" {
				want = 0
			}
			if c.RemainingGas != want {
				return "remaining_gas_refused", fmt.Sprintf("node %d refused (%s): recorded leftover %d of %d", i, n.Refused, c.RemainingGas, c.Gas.Uint64())
			}
		}
		// outcome as seen by the caller
		ok := c.Err == nil
		if ok != n.OK {
			return "outcome", fmt.Sprintf("node %d (%s): recorded err=%v, the caller saw ok=%v", i, n, c.Err, n.OK)
		}
		if n.JPFailed != "" {
			// what a failing join point hands back: its own return data (an Aspect revert carries a reason), the
			// callee's data when the post join point ran out of gas, nothing otherwise
			if !bytes.Equal(c.Ret, n.Ret) && !(len(c.Ret) == 0 && len(n.Ret) == 0) {
				return "ret_after_join_point_failure", fmt.Sprintf("node %d (%s): recorded return data %x, the %s join point handed back %x", i, n, clip(c.Ret), n.JPFailed, clip(n.Ret))
			}
		}
		if n.JPFailed == "" {
			wantRet := n.Ret
			if !bytes.Equal(c.Ret, wantRet) && !(len(c.Ret) == 0 && len(wantRet) == 0) {
				return "ret", fmt.Sprintf("node %d (%s): recorded return data %x, handed back %x", i, n, clip(c.Ret), clip(wantRet))
			}
			if !n.OK && n.Refused == "" {
				if cls := nodeErrClass(c.Err); (cls == "revert") != n.Reverted {
					return "err_class", fmt.Sprintf("node %d (%s): recorded error %v, expected reverted=%v", i, n, c.Err, n.Reverted)
				}
			}
		}
	}
	if extra := ct.FindCall(uint64(len(m.Nodes))); extra != nil {
		return "extra_attempt", fmt.Sprintf("the call tree has a node %d, the execution made %d attempts", len(m.Nodes), len(m.Nodes))
	}
	return "", ""
}

func callerFrame(s *scn.Scn, id int) *scn.Frame {
	var out *scn.Frame
	s.Walk(func(f *scn.Frame, static bool, depth int, parent *scn.Frame) {
		if f.ID == id {
			out = f
		}
	})
	return out
}

// ---------------------------------------------------------------- C10 / C13: journals

func renderChanges(ch map[uint64][][]byte) string {
	var idx []uint64
	for k := range ch {
		idx = append(idx, k)
	}
	for i := range idx {
		for j := i + 1; j < len(idx); j++ {
			if idx[j] < idx[i] {
				idx[i], idx[j] = idx[j], idx[i]
			}
		}
	}
	out := ""
	for _, k := range idx {
		out += fmt.Sprintf("%d:[", k)
		for _, v := range ch[k] {
			out += fmt.Sprintf("%x,", trimLeft(v))
		}
		out += "] "
	}
	return out
}

func trimLeft(b []byte) []byte {
	for len(b) > 1 && b[0] == 0 {
		b = b[1:]
	}
	return b
}

func renderModelChanges(ch map[int][][]byte) string {
	u := map[uint64][][]byte{}
	for k, v := range ch {
		u[uint64(k)] = v
	}
	return renderChanges(u)
}

func c10Judge(s *scn.Scn, r *scn.Run, m *scn.MResult) (sig, detail string) {
	if p := anyPanic(r); p != "" {
		return "panic", p
	}
	sc := r.Env.EVM.Tracer().StateChanges()
	names := map[string]bool{}
	s.Walk(func(f *scn.Frame, static bool, depth int, parent *scn.Frame) {
		names[scn.JournalName(s.Kid(f.ID), 1)], names[scn.JournalName(s.Kid(f.ID), 2)] = true, true
		names[scn.RefName(s.Kid(f.ID), 1)], names[scn.RefName(s.Kid(f.ID), 2)] = true, true
	})
	var sorted []string
	for name := range names {
		sorted = append(sorted, name)
	}
	sort.Strings(sorted)
	for _, a := range m.Addresses(s) {
		for _, name := range sorted {
			var got map[uint64][][]byte
			if v := sc.Variable(a, name); v != nil {
				got = v.Changes()
			}
			want := m.Journal[a][name]
			if g, w := renderChanges(got), renderModelChanges(want); g != w {
				kind := "values"
				switch {
				case len(want) == 0:
					kind = "foreign_entry"
				case len(got) == 0:
					kind = "missing_entry"
				case len(got) != len(want):
					kind = "call_index"
				default:
					for k := range want {
						if _, ok := got[uint64(k)]; !ok {
							kind = "call_index"
						}
					}
				}
				return "journal:" + kind, fmt.Sprintf("variable %s of account %x: recorded {%s}, expected {%s}", name, a[16:], g, w)
			}
		}
	}
	return "", ""
}

func c13Judge(s *scn.Scn, r *scn.Run, m *scn.MResult) (sig, detail string) {
	if p := anyPanic(r); p != "" {
		return "panic", p
	}
	sc := r.Env.EVM.Tracer().StateChanges()
	// cross-check the model's transfers with what the wrapping transfer function observed on the real state
	for _, a := range m.Addresses(s) {
		var got map[uint64][][]byte
		if b := sc.Balance(a); b != nil {
			got = b.Changes()
		}
		want := m.BalJ[a]
		if g, w := renderChanges(got), renderModelChanges(want); g != w {
			kind := "values"
			switch {
			case len(want) == 0:
				kind = "spurious_entry"
			case len(got) == 0:
				kind = "missing_entry"
			case len(got) != len(want):
				kind = "call_index"
			}
			return "balance:" + kind, fmt.Sprintf("balance journal of %x: recorded {%s}, true balances around the transfers {%s}", a[16:], g, w)
		}
	}
	return "", ""
}

var _ = avm.ErrOutOfGas
