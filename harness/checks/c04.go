package checks

import (
	"encoding/json"
	"fmt"
	"time"

	"verif/fw"
	"verif/mc"
	"verif/scn"
	"verif/world"
)

// C04 — a failed call frame leaves world state untouched, whatever made it fail.

func c04Opts(tier string) (*scnOpts, int) {
	o := &scnOpts{Forks: []world.Fork{world.Byzantium, world.Berlin, world.Shanghai}, Answers: failAlphabet, BoundAll: true}
	o.Gen = scn.GenOpts{
		MaxDepth:   2,
		Effects:    []scn.Effect{scn.ENone, scn.ESstore, scn.ELog},
		Terms:      []scn.Term{scn.TStop, scn.TReturn, scn.TRevert, scn.TInvalid, scn.TUnderflow, scn.TOOG, scn.TSelfdestruct},
		Kinds:      []scn.Kind{scn.KCall, scn.KCallCode, scn.KDelegateCall, scn.KStaticCall, scn.KCreate, scn.KCreate2},
		Values:     []int{0, 1, 2},
		Targets:    []scn.Target{scn.TgChild, scn.TgPrecompile, scn.TgCodeless, scn.TgBadPrecompile, scn.TgAbsent},
		LeafCalls:  false,
		PreEffects: []scn.Effect{scn.ENone, scn.ESstore},
	}
	o.TopValues = []int{0, 1}
	bound := 1
	if tier == "thorough" {
		o.Forks = scnForks
		o.Gen.MaxDepth = 3
		o.Gen.MaxFrames = 3
		bound = 2
	}
	return o, bound
}

// c04Judge compares the real post-state with the scenario semantics.
func c04Judge(s *scn.Scn, r *scn.Run, m *scn.MResult) (sig, detail string) {
	if r.Panic != "" {
		return "panic", r.Panic
	}
	kind, d := compareWorld(s, r, m)
	if kind == "" {
		return "", ""
	}
	// classify by what made a frame fail in this scenario
	cause := "intrinsic"
	for _, n := range m.Nodes {
		if n.JPFailed != "" {
			cause = n.JPFailed + "_join_point"
			break
		}
	}
	return "state:" + cause + ":" + kind, d
}

func init() {
	register(&Check{
		ID:          "C04",
		Level:       "fault_enumeration",
		Technique:   "bounded exhaustive enumeration of scenario call trees (depth-bounded) x fork x join-point answer vectors (fault enumeration with a deviation bound) executed on the real EVM with a scripted Aspect runtime; post-state compared with a reference interpreter of the scenario AST",
		Rule:        "scenario trees: frame = pre-effect {none, SSTORE, LOG} ; optional call kind {CALL, CALLCODE, DELEGATECALL, STATICCALL, CREATE, CREATE2} x value {0, 1, more than balance} x target {child frame, succeeding / failing precompile, code-less / absent / existing empty account} ; post-effect ; terminator {STOP, RETURN, REVERT, INVALID, stack underflow, out of gas, SELFDESTRUCT}; nesting <= depth bound; forks {Byzantium, Istanbul, Berlin, London, Shanghai}; Aspects bound to every contract; at each Aspect execution the answer is drawn from {ok, out of gas, revert, other failure, provider failure, ok burning all gas} with at most k non-default answers. Oracle: storage of every contract, success flags and RETURNDATASIZE seen by callers, balances, nonces, code, self-destructs, logs and the set of accounts left after finalisation (touched empty accounts are deleted unless the touching frame failed) equal the model's, in which a failed frame and its descendants contribute nothing and the caller's own effects stay. non-trivial = distinct (scenario, answers) in which at least one frame failed",
		Assumptions: []string{"the Aspect runtime is replaced by a scripted stub at run.Runner (djpm.runAspect is real)", "gas-tight calls are not part of this scenario language (gas exactness is C02's subject)"},
		Bounds: func(t string) map[string]any {
			o, b := c04Opts(t)
			return map[string]any{"max_depth": o.Gen.MaxDepth, "answer_deviation_bound": b, "forks": len(o.Forks), "answers": len(o.Answers)}
		},
		Quick:    80 * time.Second,
		Thorough: 40 * time.Minute,
		Run: func(w *fw.W) {
			o, bound := c04Opts(w.Tier)
			if w.Thorough() {
				// the quick families first, then the deeper ones
				qo, qb := c04Opts("quick")
				ch := &scnCheck{ID: "C04", Judge: c04Judge, Nontrivial: anyFailed}
				ch.runFamily(w, 2, scnFamily{qo, qb, nil})
				ch.runFamily(w, 3, chainFamily("quick", []scn.Effect{scn.ENone, scn.ESstore}, func(o *scnOpts) { o.Gen.PreEffects = nil }))
			}
			{
				// leaf calls: depth-2 frames that call a leaf target themselves (absent, empty, code-less account) before
				// they stop, revert or fail - over a reduced alphabet, run first
				lo := &scnOpts{Forks: []world.Fork{world.Byzantium, world.Shanghai}, Answers: failAlphabet, BoundAll: true}
				lo.Gen = scn.GenOpts{MaxDepth: 2, LeafCalls: true, Effects: []scn.Effect{scn.ENone, scn.ESstore}, PreEffects: []scn.Effect{scn.ENone},
					Terms: []scn.Term{scn.TStop, scn.TRevert, scn.TInvalid}, Kinds: []scn.Kind{scn.KCall, scn.KStaticCall, scn.KDelegateCall}, Values: []int{0, 1},
					Targets: []scn.Target{scn.TgChild, scn.TgEmptyAcct, scn.TgAbsent, scn.TgCodeless}}
				ch := &scnCheck{ID: "C04", Judge: c04Judge, Nontrivial: anyFailed}
				ch.runFamily(w, 4, scnFamily{lo, 1, nil})
			}
			defer func() {
				// depth-3 chains over the reduced alphabet
				ch := &scnCheck{ID: "C04", Judge: c04Judge, Nontrivial: anyFailed}
				ch.runFamily(w, 1, chainFamily(w.Tier, []scn.Effect{scn.ENone, scn.ESstore}, func(o *scnOpts) { o.Gen.PreEffects = nil }))
			}()
			mc.Explore(bound, func(c *mc.Ctx) {
				s := genScn(c, o)
				if !w.MineKey(fw.Hash(s.String())) {
					return
				}
				r, m := execScn(c, s, o.Answers, false)
				w.Evals++
				w.Transitions += int64(len(r.Rec.All))
				key := fmt.Sprint(s) + describeAnswers(r.Answers)
				h := fw.Hash(key)
				w.State(h)
				if len(m.Failed) > 0 {
					w.Nontrivial(h)
				}
				if w.Evals%30011 == 1 {
					w.Sample(map[string]any{"scenario": s.String(), "answers": describeAnswers(r.Answers)})
				}
				if sig, detail := c04Judge(s, r, m); sig != "" {
					ans := append([]scn.Answer{}, r.Answers...)
					for i := 0; i < 4; i++ {
						r2, m2 := replayScn(s, ans, false)
						if s2, _ := c04Judge(s, r2, m2); s2 != sig {
							w.Notes = append(w.Notes, "UNREPRODUCED: C04 violation did not reproduce: "+key)
							return
						}
					}
					w.Violate(sig, detail+"\n"+key, scnReplay{s, ans})
				}
			}, func() bool { return w.Expired() })
		},
		Replay: func(raw json.RawMessage) []fw.Violation {
			var rp scnReplay
			if err := json.Unmarshal(raw, &rp); err != nil || rp.Scn == nil {
				panic(fmt.Sprint("bad replay case ", err))
			}
			r, m := replayScn(rp.Scn, rp.Answers, false)
			sig, detail := c04Judge(rp.Scn, r, m)
			if sig == "" {
				return nil
			}
			return []fw.Violation{{Sig: sig, Detail: detail, Case: raw}}
		},
	})
}
