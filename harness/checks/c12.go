package checks

import (
	"encoding/json"
	"fmt"
	"regexp"
	"strings"
	"time"

	avm "github.com/artela-network/artela-evm/vm"
	"github.com/ethereum/go-ethereum/common"
	"github.com/holiman/uint256"
	"verif/fw"
	"verif/gen"
	"verif/world"
)

// C12 — journal instructions are invisible to execution and cost a constant fee.

// memory layout of the registration block
const (
	c12NameX = 0x200 // "x"
	c12NameS = 0x240 // "s"
	c12NameM = 0x280 // "m"
	c12NameT = 0x2c0 // "t"
	c12NameK = 0x300 // "k" (fresh name / index key)
	c12Huge  = 0x340 // a length word of 2^40 with no data behind it
	c12NameU = 0x360 // "u"
	c12NameH = 0x3a0 // "h"
	c12NameG = 0x3e0 // "g"
	// a 32-byte name in the last two words of memory: the key ends exactly where memory ends (as long as the base
	// program does not grow memory further)
	c12NameEnd = 0x420
)

func c12Prefix() []byte {
	p := &gen.JProgram{}
	p.Mem = append(p.Mem, gen.StrWords(c12NameX, []byte("x"))...)
	p.Mem = append(p.Mem, gen.StrWords(c12NameS, []byte("s"))...)
	p.Mem = append(p.Mem, gen.StrWords(c12NameM, []byte("m"))...)
	p.Mem = append(p.Mem, gen.StrWords(c12NameT, []byte("t"))...)
	p.Mem = append(p.Mem, gen.StrWords(c12NameK, []byte("k"))...)
	p.Mem = append(p.Mem, gen.StrWords(c12NameU, []byte("u"))...)
	p.Mem = append(p.Mem, gen.StrWords(c12NameH, []byte("h"))...)
	p.Mem = append(p.Mem, gen.StrWords(c12NameG, []byte("g"))...)
	p.Mem = append(p.Mem, gen.StrWords(c12NameEnd, []byte("a-name-of-exactly-32-bytes-at-end"[:32]))...)
	p.Mem = append(p.Mem, gen.MemWrite{Off: c12Huge, Word: common.Hash(new(uint256.Int).Lsh(uint256.NewInt(1), 40).Bytes32())})
	p.Steps = []gen.JStep{
		gen.RegisterValueVar(c12NameX, uint256.NewInt(0), 0, gen.TypeA),
		gen.RegisterRefVar(c12NameS, uint256.NewInt(1), gen.TypeA),
		gen.RegisterRefVar(c12NameM, uint256.NewInt(2), gen.TypeB),
		gen.RegisterRefVar(c12NameT, uint256.NewInt(4), gen.TypeA),
		gen.RegisterRefVar(c12NameU, uint256.NewInt(5), gen.TypeA),
		gen.RegisterValueVar(c12NameH, c12Hashed, 0, gen.TypeA),
		gen.RegisterRefVar(c12NameG, c12Hashed2, gen.TypeA),
	}
	return p.Body()
}

// hashed slot numbers (mapping / dynamic-array members, EIP-1967 style slots)
var (
	c12Hashed  = u256(common.HexToHash("0x360894a13ba1a3210667c828492db98dca3e2076cc3735a920a3ca505d382bbc"))
	c12Hashed2 = u256(common.HexToHash("0xb53127684a568b3173ae13b9f8a6016e243e63b6e8ee1178d6a717850b5d6103"))
)

func c12Storage() map[common.Hash]common.Hash {
	m := c12StorageBase()
	m[common.Hash(c12Hashed.Bytes32())] = gen.Pattern
	for k, v := range gen.EncodeString(c12Hashed2, []byte("hashed")) {
		m[k] = v
	}
	for k, v := range gen.EncodeString(uint256.NewInt(5), gen.PatternBytes(40)) { // out-of-place string
		m[k] = v
	}
	return m
}

func c12StorageBase() map[common.Hash]common.Hash {
	return map[common.Hash]common.Hash{
		{}:                      common.HexToHash("0x1111111111111111111111111111111111111111111111111111111111111111"),
		common.HexToHash("0x1"): common.HexToHash("0x6162000000000000000000000000000000000000000000000000000000000004"), // "ab"
		common.HexToHash("0x4"): common.HexToHash("0x6162000000000000000000000000000000000000000000000000000000000040"), // invalid short form (length 32)
	}
}

type c12Step struct {
	Name string
	Step gen.JStep
	OK   bool // well-formed in the pre-state established by the registration block
}

func n(v uint64) *uint256.Int { return uint256.NewInt(v) }

// c12Steps lists the journal instructions under test: well-formed operand sets and each malformed class.
func c12Steps() []c12Step {
	A, B := u256(gen.TypeA), u256(gen.TypeB)
	big64 := new(uint256.Int).Lsh(n(1), 64)
	s := func(op byte, operands ...*uint256.Int) gen.JStep { return gen.JStep{Op: op, Operands: operands} }
	return []c12Step{
		// well-formed
		{"RSVJNAL new", s(0xe0, n(c12NameK), n(3), A), true},
		{"RSVJNAL again", s(0xe0, n(c12NameS), n(1), A), true},
		{"VSVJNAL new", s(0xe1, n(c12NameK), n(3), n(4), A), true},
		{"VSVJNAL again", s(0xe1, n(c12NameX), n(0), n(0), A), true},
		{"VSVJNAL off31", s(0xe1, n(c12NameK), n(3), n(31), B), true},
		{"IRVVJNAL", s(0xe2, n(2), n(9), n(c12NameK), n(0), A, B), true},
		{"IRVRJNAL", s(0xe3, n(2), n(9), n(c12NameK), A, B), true},
		{"IVVVJNAL", s(0xe4, n(2), n(9), n(7), n(3), A, B), true},
		{"IVVRJNAL", s(0xe5, n(2), n(9), n(7), A, B), true},
		{"VVJNAL full", s(0xe6, n(0), n(0), n(32), A), true},
		{"VVJNAL byte", s(0xe6, n(0), n(0), n(1), A), true},
		{"VVJNAL empty", s(0xe6, n(0), n(0), n(0), A), true},
		{"VRJNAL short", s(0xe7, n(1), A), true},
		{"VRJNAL long", s(0xe7, n(5), A), true},
		{"RSVJNAL slot 4096", s(0xe0, n(c12NameK), n(4096), A), true},
		{"RSVJNAL hashed slot", s(0xe0, n(c12NameK), u256(common.HexToHash("0xc2575a0e9e593c00f959f8c92f12db2869c3395a3b0502d05e2516446f71f85b")), A), true},
		{"VSVJNAL hashed slot", s(0xe1, n(c12NameK), u256(common.HexToHash("0xc2575a0e9e593c00f959f8c92f12db2869c3395a3b0502d05e2516446f71f85b")), n(2), B), true},
		{"IRVVJNAL hashed slot", s(0xe2, n(2), u256(common.HexToHash("0xc2575a0e9e593c00f959f8c92f12db2869c3395a3b0502d05e2516446f71f85b")), n(c12NameK), n(0), A, B), true},
		{"IVVRJNAL hashed slot and key", s(0xe5, n(2), u256(common.HexToHash("0xc2575a0e9e593c00f959f8c92f12db2869c3395a3b0502d05e2516446f71f85b")), new(uint256.Int).SetAllOne(), A, B), true},
		{"VVJNAL hashed slot", s(0xe6, c12Hashed, n(0), n(32), A), true},
		{"VRJNAL hashed slot", s(0xe7, c12Hashed2, A), true},
		{"RSVJNAL key ends at the end of memory", s(0xe0, n(c12NameEnd), n(3), A), true},
		{"VSVJNAL key ends at the end of memory", s(0xe1, n(c12NameEnd), n(3), n(4), A), true},
		{"IRVVJNAL key ends at the end of memory", s(0xe2, n(2), n(9), n(c12NameEnd), n(0), A, B), true},
		{"IRVRJNAL key ends at the end of memory", s(0xe3, n(2), n(9), n(c12NameEnd), A, B), true},
		// malformed
		{"VVJNAL off32", s(0xe6, n(0), n(32), n(0), A), false},
		{"VVJNAL off31 width32", s(0xe6, n(0), n(31), n(32), A), false},
		{"VVJNAL width33", s(0xe6, n(0), n(0), n(33), A), false},
		{"VVJNAL width 2^64", s(0xe6, n(0), n(0), big64, A), false},
		{"VVJNAL unregistered slot", s(0xe6, n(7), n(0), n(32), A), false},
		{"VVJNAL wrong type", s(0xe6, n(0), n(0), n(32), B), false},
		{"VRJNAL unregistered", s(0xe7, n(7), A), false},
		{"VRJNAL invalid encoding", s(0xe7, n(4), A), false},
		{"RSVJNAL ptr beyond memory", s(0xe0, n(1<<32), n(3), A), false},
		{"RSVJNAL ptr 2^64", s(0xe0, big64, n(3), A), false},
		{"RSVJNAL length beyond memory", s(0xe0, n(c12Huge), n(3), A), false},
		{"VSVJNAL off32", s(0xe1, n(c12NameK), n(3), n(32), A), false},
		{"VSVJNAL ptr beyond memory", s(0xe1, new(uint256.Int).SetAllOne(), n(3), n(0), A), false},
		{"IRVVJNAL unknown parent", s(0xe2, n(8), n(9), n(c12NameK), n(0), A, B), false},
		{"IRVVJNAL off32", s(0xe2, n(2), n(9), n(c12NameK), n(32), A, B), false},
		{"IRVRJNAL parent type mismatch", s(0xe3, n(2), n(9), n(c12NameK), A, A), false},
		{"IRVRJNAL length beyond memory", s(0xe3, n(2), n(9), n(c12Huge), A, B), false},
		{"IVVVJNAL unknown parent", s(0xe4, n(8), n(9), n(7), n(0), A, B), false},
		{"IVVVJNAL off 2^64", s(0xe4, n(2), n(9), n(7), big64, A, B), false},
		{"IVVRJNAL unknown parent", s(0xe5, n(8), n(9), n(7), A, B), false},
	}
}

// c12Alphabet is the SEQ alphabet without GAS (the only macro that reads the gas counter, which legitimately
// differs between the two variants).
func c12Alphabet() []gen.Macro {
	var out []gen.Macro
	for _, m := range gen.SeqAlphabet() {
		if m.Name != "GAS" {
			out = append(out, m)
		}
	}
	return out
}

type c12Case struct {
	Fork   world.Fork `json:"fork"`
	Static bool       `json:"static"`
	Seq    []int      `json:"seq"`
	At     int        `json:"at"`
	StepIx int        `json:"step"`
	L      int        `json:"L"`
	Note   string     `json:"note"`
	// Deep > 0: zero words are pushed right before the operands so that, with the operands on top, the stack holds
	// 1024 - (Deep-1) items (the instruction executes at the stack limit)
	Deep int `json:"deep,omitempty"`
}

func c12Trace(cs *world.Case) (*world.ARec, *world.Obs) {
	rec, obs, _ := c12TraceAt(cs, nil, -1, -1)
	return rec, obs
}

// c12TraceAt additionally evaluates, at the journal step located in [lo, hi), whether the step's operands are
// still well-formed in the live state (the base program may have overwritten the head word of the journaled
// string or the length word of a name string).
func c12TraceAt(cs *world.Case, st *gen.JStep, lo, hi int) (*world.ARec, *world.Obs, bool) {
	rec := &world.ARec{}
	env := world.NewA(cs, world.AOpts{Tracer: rec})
	rec.Refund = env.DB.GetRefund
	live := true
	if st != nil {
		rec.OnStep = func(pc uint64, op avm.OpCode, gas, cost uint64, scope *avm.ScopeContext, rData []byte, depth int, err error) {
			if depth != 1 || byte(op) != st.Op || int(pc) < lo || int(pc) >= hi {
				return
			}
			jop := gen.JOpByByte(st.Op)
			for i, r := range jop.Roles {
				switch r {
				case gen.JPtr:
					ptr := st.Operands[i]
					mem := scope.Memory.Data()
					if !ptr.IsUint64() || ptr.Uint64() > uint64(len(mem)) || uint64(len(mem))-ptr.Uint64() < 32 {
						live = false
						continue
					}
					l := new(uint256.Int).SetBytes(mem[ptr.Uint64() : ptr.Uint64()+32])
					if !l.IsUint64() || l.Uint64() > uint64(len(mem))-ptr.Uint64()-32 {
						live = false
					}
				case gen.JSlot:
					if st.Op == 0xe7 {
						head := env.DB.StateDB.GetState(scope.Contract.Address(), common.Hash(st.Operands[i].Bytes32()))
						if _, _, ok := gen.StringLen(head); !ok {
							live = false
						}
					}
				}
			}
		}
	}
	obs := env.Invoke(cs)
	return rec, obs, live
}

func stripField(l, key string) string {
	i := strings.Index(l, " "+key+"=")
	if i < 0 {
		return l
	}
	j := strings.IndexByte(l[i+1:], ' ')
	if j < 0 {
		return l[:i]
	}
	return l[:i] + l[i+1+j:]
}

// c12Fee is the fee every journal instruction must charge: measured once per process on a canonical case; all
// other cases are compared with it (the property fixes constancy, not a number).
var c12Fee = func() uint64 {
	st := c12Steps()[9] // VVJNAL full
	if st.Name != "VVJNAL full" {
		panic("c12: canonical step moved")
	}
	code, _ := gen.BuildSeqIns(world.Shanghai, nil, nil, 1, c12Prefix(), 0, gen.StepCode(st.Step))
	cs := gen.StdCase(world.Shanghai, code, "call", 300000)
	cs.Accounts[1].Storage = c12Storage()
	rec, _ := c12Trace(cs)
	for _, l := range rec.Lines {
		if strings.HasPrefix(l, "S ") && strings.Contains(l, " op=e6 ") {
			c, _ := fieldOf(l, "cost")
			return c
		}
	}
	return 0
}()

// c12PrefixCheck runs the registration block (well-formed registrations only) on its own: it must complete.
var c12PrefixMemo = map[world.Fork]string{}

func c12PrefixCheck(f world.Fork) string {
	if m, ok := c12PrefixMemo[f]; ok {
		return m
	}
	code, _ := gen.BuildSeqIns(f, nil, nil, 1, c12Prefix(), 0, nil)
	cs := gen.StdCase(f, code, "call", 300000)
	cs.Accounts[1].Storage = c12Storage()
	_, obs := c12Trace(cs)
	msg := ""
	if obs.Panic != "" || obs.Class != "ok" {
		msg = fmt.Sprintf("a block of well-formed registrations (names in memory, small and hashed slots) halts the frame on %s: class=%s err=%q panic=%s", f, obs.Class, obs.Err, obs.Panic)
	}
	c12PrefixMemo[f] = msg
	return msg
}

func c12Run(c *c12Case) (sig, detail string) {
	if msg := c12PrefixCheck(c.Fork); msg != "" {
		return "visible:halts:registration_block", msg
	}
	alpha := c12Alphabet()
	st := c12Steps()[c.StepIx]
	prefix := c12Prefix()
	entry := "call"
	if c.Static {
		entry = "staticcall"
	}
	var filler []byte
	if c.Deep > 0 {
		// stack height at the insertion point of an empty base sequence: 3*L seeds + 3 (see gen.BuildSeqIns)
		n := 1024 - (3*c.L + 3) - len(st.Step.Operands) - (c.Deep - 1)
		for i := 0; i < n; i++ {
			filler = append(filler, 0x60, 0x00)
		}
	}
	mk := func(ins []byte) (*world.Case, int) {
		code, insPC := gen.BuildSeqIns(c.Fork, alpha, c.Seq, c.L, prefix, c.At, append(append([]byte{}, filler...), ins...))
		insPC += len(filler)
		cs := gen.StdCase(c.Fork, code, entry, 300000)
		cs.Accounts[1].Storage = c12Storage()
		return cs, insPC
	}
	name := strings.SplitN(st.Name, " ", 2)[0]
	csP, insPC := mk(gen.StepCode(st.Step))
	resume := insPC + len(gen.StepCode(st.Step))
	recP, obsP, live := c12TraceAt(csP, &st.Step, insPC, resume)
	if obsP.Panic != "" {
		return "panic:" + name, obsP.Panic
	}
	wellFormed := st.OK && live
	// locate the journal step in P
	jIdx := -1
	for i, l := range recP.Lines {
		if strings.HasPrefix(l, "S ") && strings.Contains(l, fmt.Sprintf(" op=%x ", st.Step.Op)) {
			pc, _ := fieldOf(l, "pc")
			d, _ := fieldOf(l, "d")
			if d == 1 && int(pc) >= insPC && int(pc) < resume {
				jIdx = i
				break
			}
		}
	}
	if jIdx < 0 {
		return "", "unreached" // the base program ended before the insertion point
	}
	fee, _ := fieldOf(recP.Lines[jIdx], "cost")
	if fee == 0 || fee != c12Fee {
		return "fee:" + name, fmt.Sprintf("journal instruction charged %d, the fee observed on the canonical case is %d", fee, c12Fee)
	}
	if !wellFormed {
		// malformed operands: the frame must halt exceptionally: error, all gas consumed, effects reverted
		if obsP.Class != "halt" || obsP.Gas != 0 || obsP.State != "" || len(obsP.Logs) != 0 || len(obsP.Ret) != 0 {
			return "malformed_not_halted:" + name, fmt.Sprintf("malformed operands (%s) must halt the frame like an exceptional instruction; got class=%s err=%q gas=%d state={%s} logs=%d ret=%x", st.Name, obsP.Class, obsP.Err, obsP.Gas, obsP.State, len(obsP.Logs), []byte(obsP.Ret))
		}
		// the journal step must be the last step of the frame
		for _, l := range recP.Lines[jIdx+1:] {
			if strings.HasPrefix(l, "S ") {
				return "malformed_continued:" + name, "execution continued after a malformed journal instruction: " + l
			}
		}
		return "", ""
	}
	csQ, _ := mk(gen.StepPops(st.Step))
	recQ, obsQ := c12Trace(csQ)
	if obsQ.Panic != "" {
		return "harness", "pop variant panicked: " + obsQ.Panic
	}
	// prefixes up to the operand pushes are identical code: events must be identical
	for i := 0; i < jIdx; i++ {
		if i >= len(recQ.Lines) || recP.Lines[i] != recQ.Lines[i] {
			return "harness", fmt.Sprintf("prefix event %d differs between the variants", i)
		}
	}
	// suffixes from the resume point
	find := func(lines []string) int {
		for i := jIdx; i < len(lines); i++ {
			l := lines[i]
			if strings.HasPrefix(l, "S ") {
				pc, _ := fieldOf(l, "pc")
				d, _ := fieldOf(l, "d")
				if d == 1 && int(pc) == resume {
					return i
				}
			}
		}
		return -1
	}
	iP, iQ := find(recP.Lines), find(recQ.Lines)
	if iP < 0 || iQ < 0 {
		if iP < 0 && iQ >= 0 {
			return "visible:halts:" + name, fmt.Sprintf("with well-formed operands (%s) the program stops at the journal instruction (err=%q) while the pop variant continues", st.Name, obsP.Err)
		}
		return "harness", fmt.Sprintf("resume point not reached (P=%d, P'=%d)", iP, iQ)
	}
	nops := uint64(len(st.Step.Operands))
	sp, sq := recP.Lines[iP:], recQ.Lines[iQ:]
	gp0, _ := fieldOf(sp[0], "gas")
	gq0, _ := fieldOf(sq[0], "gas")
	delta := int64(gq0) - int64(gp0) // = fee - nops - 1
	if delta != int64(fee)-int64(nops)-1 {
		return "fee_accounting:" + name, fmt.Sprintf("gas difference at the resume point is %d, expected fee-%d-1 = %d", delta, nops, int64(fee)-int64(nops)-1)
	}
	if len(sp) != len(sq) {
		return "visible:control_flow:" + name, fmt.Sprintf("event counts after the instruction differ: %d vs %d", len(sp), len(sq))
	}
	for i := range sp {
		a, b := sp[i], sq[i]
		switch a[0] {
		case 'S', 'F':
			d, _ := fieldOf(a, "d")
			ga, _ := fieldOf(a, "gas")
			gb, _ := fieldOf(b, "gas")
			want := int64(0)
			if d == 1 {
				want = delta
			}
			if int64(gb)-int64(ga) != want {
				return "visible:gas:" + name, fmt.Sprintf("event %d after the instruction: gas differs by %d, expected %d\nP : %s\nP': %s", i, int64(gb)-int64(ga), want, a, b)
			}
			a, b = stripField(a, "gas"), stripField(b, "gas")
		case 'E':
			a, b = stripField(a, "used"), stripField(b, "used")
		case '<':
			if i == len(sp)-1 {
				// exit event of the top-level frame (host StaticCall announces it as enter/exit)
				a, b = stripField(a, "used"), stripField(b, "used")
			}
		}
		if a != b {
			return "visible:state:" + name, fmt.Sprintf("event %d after the instruction differs (stack/memory/pc/return data/refund)\nP : %s\nP': %s", i, a, b)
		}
	}
	// results
	// the two variants differ in T's code by construction: compare the state deltas without code hashes
	if string(obsP.Ret) != string(obsQ.Ret) || obsP.Class != obsQ.Class || codeHashRe.ReplaceAllString(obsP.State, "") != codeHashRe.ReplaceAllString(obsQ.State, "") || obsP.Refund != obsQ.Refund || fmt.Sprint(obsP.Logs) != fmt.Sprint(obsQ.Logs) || fmt.Sprint(obsP.Suicided) != fmt.Sprint(obsQ.Suicided) {
		return "visible:result:" + name, fmt.Sprintf("results differ\nP : %s\nP': %s", obsP.Key(), obsQ.Key())
	}
	if obsP.Class != "halt" && int64(obsQ.Gas)-int64(obsP.Gas) != delta {
		return "visible:leftover:" + name, fmt.Sprintf("leftover gas differs by %d, expected %d", int64(obsQ.Gas)-int64(obsP.Gas), delta)
	}
	return "", ""
}

var codeHashRe = regexp.MustCompile(` code=[0-9a-f]+`)

func c12L(tier string) int {
	if tier == "thorough" {
		return 3
	}
	return 2
}

func init() {
	register(&Check{
		ID:        "C12",
		Level:     "model_checking",
		Technique: "bounded exhaustive enumeration of base programs x insertion position x journal instruction/operand set x fork x static flag; each program is executed on the real interpreter next to its pop-variant and the complete debug-tracer streams (stack, memory, pc, return data, refund, gas offsets) are compared event by event",
		Rule:      "base programs = all sequences of length <= L over the 28-macro interacting alphabet (SEQ without GAS) behind a registration block; one journal instruction (25 well-formed operand sets over the 8 opcodes incl. hashed slots and a key that ends exactly at the end of memory, 20 malformed operand sets covering each malformed class) inserted at every position, and into the empty program with the stack filled to the limit (1024 and 1023 items with the operands on top); all 13 fork configurations; normal and static entry. P' = same program with the instruction replaced by one POP per operand (P is padded with 1-gas JUMPDESTs to the same layout). Well-formed: every event after the instruction equal (gas shifted by the constant fee-n-1 at depth 1, equal in callees), results, logs, state delta, refund equal; fee equal to the canonical fee and non-zero everywhere. Malformed: frame halts at the instruction, all gas consumed, no effects. non-trivial = distinct cases in which the journal instruction was reached",
		Assumptions: []string{
			"base programs longer than L and operand values outside the listed sets are not covered",
			"GAS is excluded from the base alphabet because it legitimately observes the fee",
		},
		Bounds: func(t string) map[string]any {
			return map[string]any{"seq_len": c12L(t), "seq_len_minor_forks": c12L(t) - 1, "forks": 13, "steps": len(c12Steps()), "alphabet": len(c12Alphabet())}
		},
		Quick:    80 * time.Second,
		Thorough: 30 * time.Minute,
		Run: func(w *fw.W) {
			L := c12L(w.Tier)
			alpha := c12Alphabet()
			steps := c12Steps()
			for l := 0; l <= L; l++ {
				for f := world.Frontier; f < world.NumForks; f++ {
					f := f
					ok := true
					// the four forks with distinct instruction-table lineages get the full length, the others L-1
					fl := L
					if f != world.Frontier && f != world.Berlin && f != world.Shanghai && f != world.Cancun {
						fl = L - 1
					}
					if l > fl {
						continue
					}
					gen.ForEachSeqLen(len(alpha), l, func(seq []int) {
						if !ok {
							return
						}
						for at := 0; at <= len(seq); at++ {
							if !w.Mine() {
								continue
							}
							if w.Expired() {
								ok = false
								return
							}
							for six := range steps {
								for _, static := range []bool{false, true} {
									if static && !w.Thorough() && (len(seq)+six)%3 != 0 {
										continue // quick: a third of the static variants
									}
									deeps := []int{0}
									if len(seq) == 0 && !static {
										deeps = []int{0, 1, 2} // also at the stack limit and one below it
									}
									for _, deep := range deeps {
										c := &c12Case{Fork: f, Static: static, Seq: append([]int{}, seq...), At: at, StepIx: six, L: L, Deep: deep}
										c.Note = fmt.Sprintf("%s static=%v seq=[%s] at=%d step=%q", f, static, seqName(alpha, seq), at, steps[six].Name)
										if deep > 0 {
											c.Note += fmt.Sprintf(" stack height %d", 1024-(deep-1))
										}
										sig, detail := c12Run(c)
										w.Evals++
										w.Transitions++
										h := fw.Hash(c.Note)
										w.State(h)
										if detail == "unreached" {
											w.Skipped++
										} else {
											w.Nontrivial(h)
										}
										if w.Evals%50021 == 1 {
											w.Sample(c)
										}
										if sig == "harness" {
											w.Notes = append(w.Notes, "HARNESS ERROR: C12 "+detail+" :: "+c.Note)
											ok = false
											return
										}
										if sig != "" {
											for i := 0; i < 4; i++ {
												if s2, _ := c12Run(c); s2 != sig {
													w.Notes = append(w.Notes, "UNREPRODUCED: C12 violation did not reproduce: "+c.Note)
													return
												}
											}
											w.Violate(sig, detail+"\n"+c.Note, c)
										}
									}
								}
							}
						}
					})
					if !ok {
						return
					}
				}
			}
		},
		Replay: func(raw json.RawMessage) []fw.Violation {
			var c c12Case
			if err := json.Unmarshal(raw, &c); err != nil {
				panic(err)
			}
			sig, detail := c12Run(&c)
			if sig == "" {
				return nil
			}
			return []fw.Violation{{Sig: sig, Detail: detail, Case: raw}}
		},
	})
}
