package checks

import (
	"bytes"
	"encoding/json"
	"fmt"
	"math/big"
	"strings"
	"time"

	"github.com/ethereum/go-ethereum/common"
	"github.com/holiman/uint256"
	"verif/asm"
	"verif/fw"
	"verif/gen"
	"verif/mc"
	"verif/world"
)

// C15 — Cancun additions behave per EIP-1153 and EIP-5656.

// ---------------------------------------------------------------- (a) transient storage vs upstream EIP-1153

type tsAct struct {
	Kind  int     `json:"k"` // 0 TSTORE, 1 TLOAD, 2 call
	Key   uint64  `json:"key,omitempty"`
	Val   uint64  `json:"val,omitempty"`
	Call  string  `json:"call,omitempty"` // call | delegatecall | staticcall
	Child *tsFrame `json:"child,omitempty"`
}

type tsFrame struct {
	Acts []tsAct `json:"acts"`
	Term int     `json:"term"` // 0 STOP/RETURN, 1 REVERT, 2 INVALID
}

type tsCase struct {
	Root   *tsFrame `json:"root"`
	Static bool     `json:"static"`
	Second bool     `json:"second"` // run a second transaction (TLOADs of keys 0 and 1) after Prepare on the same state
}

var tsCallKinds = []string{"call", "delegatecall", "staticcall"}

func genTsFrame(c *mc.Ctx, depth int, budget *int) *tsFrame {
	f := &tsFrame{}
	for *budget > 0 && c.Choose(2) == 1 {
		*budget--
		nk := 2
		if depth < 3 {
			nk = 3
		}
		a := tsAct{Kind: c.Choose(nk)}
		switch a.Kind {
		case 0:
			a.Key, a.Val = uint64(c.Choose(2)), uint64(c.Choose(2))+1
			if c.Choose(2) == 1 {
				a.Val = 0
			}
		case 1:
			a.Key = uint64(c.Choose(2))
		case 2:
			a.Call = tsCallKinds[c.Choose(3)]
			a.Child = genTsFrame(c, depth+1, budget)
		}
		f.Acts = append(f.Acts, a)
	}
	f.Term = c.Choose(3)
	return f
}

// compile assigns each frame a contract; tload/tstore are the opcode bytes of the target VM.
func (f *tsFrame) compile(tload, tstore byte, accounts *[]world.Account, next *int) common.Address {
	addr := world.ContractAddr(40 + *next)
	*next++
	idx := len(*accounts)
	*accounts = append(*accounts, world.Account{Addr: addr, Nonce: 1})
	p := asm.New()
	for _, a := range f.Acts {
		switch a.Kind {
		case 0:
			p.Push(a.Val).Push(a.Key).Op(tstore)
		case 1:
			p.Push(a.Key).Op(tload).Op(asm.POP)
		case 2:
			child := a.Child.compile(tload, tstore, accounts, next)
			p.Push(0).Push(0).Push(0).Push(0)
			if a.Call == "call" {
				p.Push(0)
			}
			p.PushAddr(child).Push(100000).Op(kindByte(a.Call)).Op(asm.POP)
		}
	}
	switch f.Term {
	case 0:
		p.Op(asm.STOP)
	case 1:
		p.Push(0).Push(0).Op(asm.REVERT)
	case 2:
		p.Op(asm.INVALID)
	}
	(*accounts)[idx].Code = p.Bytes()
	return addr
}

func kindByte(k string) byte {
	switch k {
	case "call":
		return asm.CALL
	case "delegatecall":
		return asm.DELEGATECALL
	case "staticcall":
		return asm.STATICCALL
	case "callcode":
		return asm.CALLCODE
	}
	panic(k)
}

func (t *tsCase) cases(artela bool) (first, second *world.Case) {
	tl, ts := byte(0xb3), byte(0xb4)
	fork := world.Shanghai
	var eips []int
	if artela {
		tl, ts, fork = asm.TLOAD, asm.TSTORE, world.Cancun
	} else {
		eips = []int{1153}
	}
	accounts := gen.StdAccounts(nil)
	next := 0
	root := t.Root.compile(tl, ts, &accounts, &next)
	entry := "call"
	if t.Static {
		entry = "staticcall"
	}
	first = &world.Case{Fork: fork, ForkName: fork.String(), ExtraEips: eips, Accounts: accounts, Entry: entry, From: world.Origin, To: root, Gas: 400000}
	c2 := *first
	second = &c2
	return first, second
}

// normalise maps Artela's opcode bytes and names onto the reference's in a trace line.
func tsNorm(lines []string) []string {
	out := make([]string, len(lines))
	for i, l := range lines {
		l = strings.Replace(l, " op=5c ", " op=b3 ", 1)
		l = strings.Replace(l, " op=5d ", " op=b4 ", 1)
		out[i] = l
	}
	return out
}

func c15RunTS(t *tsCase) (sig, detail string, wrote bool) {
	ca, ca2 := t.cases(true)
	cr, cr2 := t.cases(false)
	// reference
	rrec := &world.RRec{}
	renv := world.NewR(cr, world.ROpts{Tracer: rrec})
	robs := renv.Invoke(cr)
	arec := &world.ARec{}
	aenv := world.NewA(ca, world.AOpts{Tracer: arec})
	aobs := aenv.Invoke(ca)
	if robs.Panic != "" {
		return "harness", "reference panicked: " + robs.Panic, false
	}
	if aobs.Panic != "" {
		return "ts:panic", aobs.Panic, false
	}
	wrote = strings.Contains(strings.Join(rrec.Lines, "\n"), " op=b4 ")
	if t.Second {
		// second transaction on the same state: transient storage must start empty
		renv.DB.Prepare(world.Rules(cr2.Fork), world.Origin, world.Coinbase, &cr2.To, nil, nil)
		aenv.DB.Prepare(world.Rules(ca2.Fork), world.Origin, world.Coinbase, &ca2.To, nil, nil)
		r2 := renv.Invoke(cr2)
		a2 := aenv.Invoke(ca2)
		if a2.Panic != "" {
			return "ts:panic", a2.Panic, wrote
		}
		if r2.Class != a2.Class || r2.Gas != a2.Gas {
			return "ts:second_tx_result", fmt.Sprintf("second transaction: reference class=%s gas=%d, /repo class=%s gas=%d", r2.Class, r2.Gas, a2.Class, a2.Gas), wrote
		}
	}
	if i, x, y := world.FirstDiff(rrec.Lines, tsNorm(arec.Lines)); i >= 0 {
		kind := "trace"
		if strings.Contains(x, "op=b3") || strings.Contains(x, "op=b4") || strings.Contains(y, "op=b3") || strings.Contains(y, "op=b4") {
			kind = "trace_at_transient_op"
		}
		return "ts:" + kind, fmt.Sprintf("event %d differs\nreference (Shanghai+EIP-1153): %s\n/repo (Cancun):               %s", i, x, y), wrote
	}
	if robs.Class != aobs.Class || robs.Gas != aobs.Gas || !bytes.Equal(robs.Ret, aobs.Ret) {
		return "ts:result", fmt.Sprintf("reference class=%s gas=%d, /repo class=%s gas=%d", robs.Class, robs.Gas, aobs.Class, aobs.Gas), wrote
	}
	return "", "", wrote
}

// ---------------------------------------------------------------- (b) MCOPY vs the EIP-5656 model

var mcopyAlphabet = []*uint256.Int{
	uint256.NewInt(0), uint256.NewInt(1), uint256.NewInt(31), uint256.NewInt(32), uint256.NewInt(33), uint256.NewInt(64), uint256.NewInt(95), uint256.NewInt(96),
	uint256.NewInt(1 << 32), new(uint256.Int).SetUint64(^uint64(0)), new(uint256.Int).Lsh(uint256.NewInt(1), 64), new(uint256.Int).SetAllOne(),
	new(uint256.Int).Add(new(uint256.Int).Lsh(uint256.NewInt(1), 64), uint256.NewInt(5)), new(uint256.Int).Lsh(uint256.NewInt(1), 128), uint256.NewInt(160), uint256.NewInt(4096),
}

func memGas(words uint64) uint64 { return 3*words + words*words/512 }

// mcopyModel returns the expected memory after the instruction and its gas cost; ok=false: out of gas.
func mcopyModel(mem []byte, dst, src, length *uint256.Int, gasAvail uint64) (after []byte, cost uint64, ok bool) {
	after = append([]byte{}, mem...)
	if length.IsZero() {
		return after, 3, gasAvail >= 3
	}
	// ranges must be addressable and affordable
	hi := dst
	if src.Gt(dst) {
		hi = src
	}
	end := new(big.Int).Add(hi.ToBig(), length.ToBig())
	if !end.IsUint64() || end.Uint64() > 1<<32 {
		return nil, 0, false
	}
	words := (end.Uint64() + 31) / 32
	old := uint64(len(mem)) / 32
	cost = 3 + 3*((length.Uint64()+31)/32)
	if words > old {
		cost += memGas(words) - memGas(old)
	}
	if cost > gasAvail {
		return nil, 0, false
	}
	if words > old {
		after = append(after, make([]byte, (words-old)*32)...)
	}
	copy(after[dst.Uint64():dst.Uint64()+length.Uint64()], after[src.Uint64():src.Uint64()+length.Uint64()])
	return after, cost, true
}

type mcopyCase struct {
	D   string `json:"dst"`
	S   string `json:"src"`
	L   string `json:"len"`
	Pre int    `json:"pre_words"`
	Gas uint64 `json:"gas"` // 0 = ample
}

func hexU(s string) *uint256.Int { v, _ := uint256.FromHex(s); return v }

func mcopyProgram(c *mcopyCase) ([]byte, []byte) {
	p := asm.New()
	var mem []byte
	for i := 0; i < c.Pre; i++ {
		h := gen.Pattern
		h[0] = byte(0xa0 + i)
		p.Push32(h).Push(uint64(32 * i)).Op(asm.MSTORE)
		mem = append(mem, h[:]...)
	}
	p.PushU(hexU(c.L)).PushU(hexU(c.S)).PushU(hexU(c.D)).Op(asm.MCOPY)
	p.Op(asm.MSIZE).Push(0).Op(asm.RETURN)
	return p.Bytes(), mem
}

func c15RunMcopy(c *mcopyCase) (sig, detail string, copied bool) {
	code, mem := mcopyProgram(c)
	gas := c.Gas
	if gas == 0 {
		gas = 300000
	}
	cs := gen.StdCase(world.Cancun, code, "call", gas)
	rec := &world.ARec{Rec: world.Rec{NoData: true}}
	env := world.NewA(cs, world.AOpts{Tracer: rec})
	obs := env.Invoke(cs)
	if obs.Panic != "" {
		return "mcopy:panic", obs.Panic, false
	}
	// locate the MCOPY step
	var gasAt, costAt uint64
	found := false
	for _, l := range rec.Lines {
		if strings.HasPrefix(l, "S ") && strings.Contains(l, " op=5e ") {
			gasAt, _ = fieldOf(l, "gas")
			costAt, _ = fieldOf(l, "cost")
			found = true
		}
	}
	if !found {
		if c.Gas != 0 {
			return "", "", false // the gas limit ended the program before MCOPY
		}
		return "harness", "MCOPY step not reached", false
	}
	want, cost, ok := mcopyModel(mem, hexU(c.D), hexU(c.S), hexU(c.L), gasAt)
	if !ok {
		if obs.Class != "halt" || obs.Gas != 0 || len(obs.Ret) != 0 {
			return "mcopy:out_of_range_accepted", fmt.Sprintf("MCOPY(dst=%s, src=%s, len=%s) on %d bytes of memory with %d gas must run out of gas; got class=%s gas=%d ret=%d bytes", c.D, c.S, c.L, len(mem), gasAt, obs.Class, obs.Gas, len(obs.Ret)), false
		}
		return "", "", false
	}
	copied = !hexU(c.L).IsZero()
	if costAt != cost {
		return "mcopy:gas", fmt.Sprintf("MCOPY(dst=%s, src=%s, len=%s) on %d bytes charged %d, EIP-5656 gives %d", c.D, c.S, c.L, len(mem), costAt, cost), copied
	}
	// after MCOPY: MSIZE(2) PUSH1(3) RETURN(0 + expansion none): program may still run out with a tight limit
	rest := gasAt - cost
	need := uint64(2 + 3)
	if rest < need {
		if obs.Class != "halt" {
			return "mcopy:gas", "program should have run out of gas after MCOPY", copied
		}
		return "", "", copied
	}
	if obs.Class != "ok" {
		return "mcopy:failed", fmt.Sprintf("MCOPY(dst=%s, src=%s, len=%s) on %d bytes with %d gas must succeed (cost %d): %s", c.D, c.S, c.L, len(mem), gasAt, cost, obs.Err), copied
	}
	if !bytes.Equal(obs.Ret, want) {
		return "mcopy:memory", fmt.Sprintf("MCOPY(dst=%s, src=%s, len=%s): memory after is %x (%d bytes), memmove model gives %x (%d bytes)", c.D, c.S, c.L, clip([]byte(obs.Ret)), len(obs.Ret), clip(want), len(want)), copied
	}
	if obs.Gas != rest-need {
		return "mcopy:gas", fmt.Sprintf("leftover %d, expected %d", obs.Gas, rest-need), copied
	}
	return "", "", copied
}

func clip(b []byte) []byte {
	if len(b) > 200 {
		return b[:200]
	}
	return b
}

// ---------------------------------------------------------------- (c) invalid before Cancun

func c15RunPre(f world.Fork, op byte, static bool) (sig, detail string) {
	p := asm.New()
	for i := 0; i < 4; i++ {
		p.Push(uint64(i))
	}
	p.Op(op).Push(1).Push(0).Op(asm.MSTORE).Push(32).Push(0).Op(asm.RETURN)
	entry := "call"
	if static {
		entry = "staticcall"
	}
	// first an EVM of the same fork that opted into the two EIPs (whatever it does with the program is not judged
	// here): the plain EVM built afterwards must still refuse the bytes
	opt := gen.StdCase(f, p.Bytes(), entry, 100000)
	opt.ExtraEips = []int{1153, 5656}
	if o := world.NewA(opt, world.AOpts{}).Invoke(opt); o.Panic != "" {
		return "pre:panic", "with ExtraEips [1153 5656]: " + o.Panic
	}
	cs := gen.StdCase(f, p.Bytes(), entry, 100000)
	obs := world.NewA(cs, world.AOpts{}).Invoke(cs)
	if obs.Panic != "" {
		return "pre:panic", obs.Panic
	}
	if obs.Class != "halt" || obs.Gas != 0 || !strings.Contains(obs.Err, "invalid opcode") {
		return "pre:valid_before_cancun", fmt.Sprintf("byte %#x on %s must be an invalid instruction; got class=%s err=%q gas=%d", op, f, obs.Class, obs.Err, obs.Gas)
	}
	return "", ""
}

type c15Replay struct {
	TS    *tsCase    `json:"ts,omitempty"`
	Mcopy *mcopyCase `json:"mcopy,omitempty"`
	Pre   *struct {
		Fork   world.Fork `json:"fork"`
		Op     byte       `json:"op"`
		Static bool       `json:"static"`
	} `json:"pre,omitempty"`
}

func c15Budget(tier string) int {
	if tier == "thorough" {
		return 4
	}
	return 3
}

func init() {
	register(&Check{
		ID:        "C15",
		Level:     "model_checking",
		Technique: "bounded exhaustive enumeration of transient-storage programs (all call trees with <= B actions) executed on the real interpreter under Cancun rules and compared step by step with upstream go-ethereum v1.12.0 running EIP-1153 at its own opcode bytes; complete product of MCOPY operands x memory sizes x gas limits against an EIP-5656 model; all forks before Cancun for invalidity",
		Rule: "(a) all frame trees with at most B actions in total, actions {TSTORE k v (k in {0,1}, v in {0,1,2}), TLOAD k, CALL/DELEGATECALL/STATICCALL into a child frame}, nesting <= 3, terminators {STOP, REVERT, INVALID}, x top-level entry {call, staticcall} x {single transaction, followed by a second transaction after Prepare}; full debug-tracer streams (stack shows every TLOAD result, gas shows the fee) equal to the reference. (b) MCOPY (dst, src, len) in a 16-value alphabet cubed x memory pre-size {0, 1, 3 words} x gas {ample, every limit in [used-12, used]} vs memmove + EIP gas formula. (c) bytes 0x5c/0x5d/0x5e on the 12 forks before Cancun, normal and static, each time right after an EVM of the same fork that opted into EIPs 1153 and 5656 ran the same program. non-trivial = distinct cases that executed a TSTORE or copied at least one byte",
		Assumptions: []string{"reference for transient storage is go-ethereum v1.12.0 with ExtraEips [1153] on Shanghai rules (opcodes 0xb3/0xb4)", "keys/values outside {0,1}/{0,1,2} and operand values outside the MCOPY alphabet are not covered"},
		Bounds: func(t string) map[string]any {
			return map[string]any{"action_budget": c15Budget(t), "max_depth": 3, "mcopy_alphabet": len(mcopyAlphabet)}
		},
		Quick:    60 * time.Second,
		Thorough: 20 * time.Minute,
		Run: func(w *fw.W) {
			report := func(sig, detail string, rep c15Replay, rerun func() string) {
				if sig == "harness" {
					w.Notes = append(w.Notes, "HARNESS ERROR: C15 "+detail)
					return
				}
				for i := 0; i < 4; i++ {
					if rerun() != sig {
						w.Notes = append(w.Notes, "UNREPRODUCED: C15 violation did not reproduce: "+detail)
						return
					}
				}
				w.Violate(sig, detail, rep)
			}
			// (a)
			mc.Explore(0, func(c *mc.Ctx) {
				b := c15Budget(w.Tier)
				t := &tsCase{Static: c.Choose(2) == 1, Second: c.Choose(2) == 1}
				t.Root = genTsFrame(c, 1, &b)
				if !w.Mine() {
					return
				}
				sig, detail, wrote := c15RunTS(t)
				w.Evals++
				w.Transitions++
				w.Extra("cases_transient", 1)
				h := fw.Hash(string(mustJSON(t)))
				w.State(h)
				if wrote {
					w.Nontrivial(h)
				}
				if w.Evals%9973 == 1 {
					w.Sample(map[string]any{"transient": t})
				}
				if sig != "" {
					report(sig, detail+"\n"+string(mustJSON(t)), c15Replay{TS: t}, func() string { s, _, _ := c15RunTS(t); return s })
				}
			}, func() bool { return w.Expired() })
			// (b)
			for _, pre := range []int{0, 1, 3} {
				for _, d := range mcopyAlphabet {
					for _, s := range mcopyAlphabet {
						for _, l := range mcopyAlphabet {
							// ownership by hash: the innermost alphabet has as many values as there are workers
							if !w.MineKey(fw.Hash("mcopy", d.Hex(), s.Hex(), l.Hex(), fmt.Sprint(pre))) {
								continue
							}
							if w.Expired() {
								return
							}
							base := &mcopyCase{D: d.Hex(), S: s.Hex(), L: l.Hex(), Pre: pre}
							run := func(c *mcopyCase) {
								sig, detail, copied := c15RunMcopy(c)
								w.Evals++
								w.Transitions++
								w.Extra("cases_mcopy", 1)
								h := fw.Hash(string(mustJSON(c)))
								w.State(h)
								if copied {
									w.Nontrivial(h)
								}
								if sig != "" {
									report(sig, detail, c15Replay{Mcopy: c}, func() string { s, _, _ := c15RunMcopy(c); return s })
								}
							}
							run(base)
							// gas sweep around the total consumption of the ample run
							cs := gen.StdCase(world.Cancun, func() []byte { c, _ := mcopyProgram(base); return c }(), "call", 300000)
							obs := world.NewA(cs, world.AOpts{}).Invoke(cs)
							if obs.Class == "ok" {
								used := 300000 - obs.Gas
								lo := uint64(0)
								if used > 12 {
									lo = used - 12
								}
								for g := lo; g <= used; g++ {
									if g == 0 {
										continue
									}
									c2 := *base
									c2.Gas = g
									run(&c2)
								}
							}
						}
					}
				}
			}
			// (c)
			for f := world.Frontier; f < world.Cancun; f++ {
				for _, op := range []byte{0x5c, 0x5d, 0x5e} {
					for _, static := range []bool{false, true} {
						if !w.Mine() {
							continue
						}
						sig, detail := c15RunPre(f, op, static)
						w.Evals++
						w.Transitions++
						w.Extra("cases_pre_cancun", 1)
						w.State(fw.Hash("pre", f.String(), fmt.Sprint(op, static)))
						if sig != "" {
							f, op, static := f, op, static
							rep := c15Replay{}
							rep.Pre = &struct {
								Fork   world.Fork `json:"fork"`
								Op     byte       `json:"op"`
								Static bool       `json:"static"`
							}{f, op, static}
							report(sig, detail, rep, func() string { s, _ := c15RunPre(f, op, static); return s })
						}
					}
				}
			}
		},
		Replay: func(raw json.RawMessage) []fw.Violation {
			var r c15Replay
			if err := json.Unmarshal(raw, &r); err != nil {
				panic(err)
			}
			var sig, detail string
			switch {
			case r.TS != nil:
				sig, detail, _ = c15RunTS(r.TS)
			case r.Mcopy != nil:
				sig, detail, _ = c15RunMcopy(r.Mcopy)
			case r.Pre != nil:
				sig, detail = c15RunPre(r.Pre.Fork, r.Pre.Op, r.Pre.Static)
			}
			if sig == "" {
				return nil
			}
			return []fw.Violation{{Sig: sig, Detail: detail, Case: raw}}
		},
	})
}
