package checks

import (
	"encoding/json"
	"errors"
	"fmt"
	"math/big"
	"sort"
	"strings"
	"time"

	"github.com/artela-network/artela-evm/tracers"
	_ "github.com/artela-network/artela-evm/tracers/native"
	avm "github.com/artela-network/artela-evm/vm"
	"github.com/artela-network/aspect-core/djpm/run"
	atypes "github.com/artela-network/aspect-core/types"
	"github.com/ethereum/go-ethereum/common"
	"github.com/ethereum/go-ethereum/common/hexutil"
	"google.golang.org/protobuf/proto"
	"verif/fw"
	"verif/gen"
	"verif/mc"
	"verif/scn"
	"verif/world"
)

// C19 — call tracers account for every EVM and Aspect frame exactly once.

// ---------------------------------------------------------------- event streams

type tev struct {
	K       byte // 'T' tx start, 'B' start, '>' enter, '<' exit, 'E' end, 't' tx end, 'A' aspect enter, 'a' aspect exit
	Typ     byte // opcode of an enter
	From    common.Address
	To      common.Address
	Input   []byte
	Gas     uint64
	Value   *big.Int
	Output  []byte
	GasUsed uint64
	Err     string // "", "revert", "halt"
	JP      int    // join point run type
	Aspect  common.Address
	ResGas  uint64
	Create  bool
	ErrText string // recorded streams: the error text as announced
}

var (
	errHalt = errors.New("invalid opcode: INVALID")
	tAddrs  = []common.Address{common.HexToAddress("0x1001"), common.HexToAddress("0x1002"), common.HexToAddress("0x1003"), common.HexToAddress("0x1004")}
)

func evErr(e string) error {
	switch e {
	case "":
		return nil
	case "revert":
		return avm.ErrExecutionReverted
	}
	return errHalt
}

// expected structure
type xFrame struct {
	ErrText    string
	Typ        string
	Gas        uint64
	GasUsed    uint64
	Err        string
	OutLen     int
	Precompile bool
	Calls      []*xFrame
	JPs        []*xJP
}

type xJP struct {
	ErrText string
	JP      int
	Gas     uint64
	GasUsed uint64
	Err     string
	OutLen  int
	Calls   []*xFrame
}

// expectTree runs the stack machine the stream denotes. ok=false: the stream is not a sentence of the grammar.
func expectTree(evs []tev) (root *xFrame, ok bool) {
	type cont struct {
		f  *xFrame
		jp *xJP
	}
	var stack []cont
	root = &xFrame{Typ: "CALL"}
	inTx, started, ended := false, false, false
	for _, e := range evs {
		switch e.K {
		case 'T':
			if inTx {
				return nil, false
			}
			inTx = true
			root.Gas = e.Gas
			stack = []cont{{f: root}}
		case 't':
			if !inTx || len(stack) != 1 || stack[0].jp != nil || started && !ended {
				return nil, false
			}
			root.GasUsed = root.Gas - e.Gas
			inTx = false
		case 'B':
			if !inTx || started || len(stack) != 1 || stack[0].jp != nil {
				return nil, false
			}
			started = true
			if e.Create {
				root.Typ = "CREATE"
			}
		case 'E':
			if !started || ended || len(stack) != 1 || stack[0].jp != nil {
				return nil, false
			}
			ended = true
			root.Err, root.OutLen, root.ErrText = e.Err, len(e.Output), e.ErrText
			if e.Err == "halt" {
				root.OutLen = 0
			}
		case '>':
			if len(stack) == 0 || !started && stack[len(stack)-1].jp == nil {
				return nil, false
			}
			f := &xFrame{Typ: avm.OpCode(e.Typ).String(), Gas: e.Gas, Precompile: (e.To == scn.Precompile || e.To == scn.BadPrecompile) && (e.Typ == 0xf1 || e.Typ == 0xfa)}
			top := stack[len(stack)-1]
			if top.jp != nil {
				top.jp.Calls = append(top.jp.Calls, f)
			} else {
				top.f.Calls = append(top.f.Calls, f)
			}
			stack = append(stack, cont{f: f})
		case '<':
			if len(stack) < 2 || stack[len(stack)-1].jp != nil {
				return nil, false
			}
			f := stack[len(stack)-1].f
			f.GasUsed, f.Err, f.OutLen, f.ErrText = e.GasUsed, e.Err, len(e.Output), e.ErrText
			if e.Err == "halt" {
				f.OutLen = 0
			}
			stack = stack[:len(stack)-1]
		case 'A':
			if len(stack) == 0 || stack[len(stack)-1].jp != nil {
				return nil, false
			}
			j := &xJP{JP: e.JP, Gas: e.Gas}
			stack[len(stack)-1].f.JPs = append(stack[len(stack)-1].f.JPs, j)
			stack = append(stack, cont{f: stack[len(stack)-1].f, jp: j})
		case 'a':
			if len(stack) < 2 || stack[len(stack)-1].jp == nil || stack[len(stack)-1].jp.JP != e.JP {
				return nil, false
			}
			j := stack[len(stack)-1].jp
			j.GasUsed, j.Err, j.OutLen, j.ErrText = j.Gas-e.ResGas, e.Err, len(e.Output), e.ErrText
			stack = stack[:len(stack)-1]
		}
	}
	return root, !inTx && started && ended
}

// teeLogger forwards EVM / Aspect callbacks to a tracer and records the stream.
type teeLogger struct {
	t   tracers.Tracer
	al  atypes.AspectLogger
	evs []tev
}

func errKind(err error) string {
	if err == nil {
		return ""
	}
	return scn.ErrClass(err.Error())
}

func errTextOf(err error) string {
	if err == nil {
		return ""
	}
	return err.Error()
}

func (l *teeLogger) CaptureTxStart(g uint64) { l.evs = append(l.evs, tev{K: 'T', Gas: g}); l.t.CaptureTxStart(g) }
func (l *teeLogger) CaptureTxEnd(g uint64)   { l.evs = append(l.evs, tev{K: 't', Gas: g}); l.t.CaptureTxEnd(g) }
func (l *teeLogger) CaptureStart(env *avm.EVM, from, to common.Address, create bool, input []byte, gas uint64, value *big.Int) {
	l.evs = append(l.evs, tev{K: 'B', From: from, To: to, Create: create, Input: common.CopyBytes(input), Gas: gas, Value: value})
	l.t.CaptureStart(env, from, to, create, input, gas, value)
}
func (l *teeLogger) CaptureEnd(output []byte, gasUsed uint64, err error) {
	l.evs = append(l.evs, tev{K: 'E', Output: common.CopyBytes(output), GasUsed: gasUsed, Err: errKind(err), ErrText: errTextOf(err)})
	l.t.CaptureEnd(output, gasUsed, err)
}
func (l *teeLogger) CaptureEnter(typ avm.OpCode, from, to common.Address, input []byte, gas uint64, value *big.Int) {
	l.evs = append(l.evs, tev{K: '>', Typ: byte(typ), From: from, To: to, Input: common.CopyBytes(input), Gas: gas, Value: value})
	l.t.CaptureEnter(typ, from, to, input, gas, value)
}
func (l *teeLogger) CaptureExit(output []byte, gasUsed uint64, err error) {
	l.evs = append(l.evs, tev{K: '<', Output: common.CopyBytes(output), GasUsed: gasUsed, Err: errKind(err), ErrText: errTextOf(err)})
	l.t.CaptureExit(output, gasUsed, err)
}
func (l *teeLogger) CaptureState(pc uint64, op avm.OpCode, gas, cost uint64, scope *avm.ScopeContext, rData []byte, depth int, err error) {
	l.t.CaptureState(pc, op, gas, cost, scope, rData, depth, err)
}
func (l *teeLogger) CaptureFault(pc uint64, op avm.OpCode, gas, cost uint64, scope *avm.ScopeContext, depth int, err error) {
	l.t.CaptureFault(pc, op, gas, cost, scope, depth, err)
}
func (l *teeLogger) CaptureAspectEnter(jp atypes.JoinPointRunType, from, to, aspect common.Address, input []byte, gas uint64, value *big.Int, req proto.Message) {
	l.evs = append(l.evs, tev{K: 'A', JP: int(jp), From: from, To: to, Aspect: aspect, Gas: gas})
	l.al.CaptureAspectEnter(jp, from, to, aspect, input, gas, value, req)
}
func (l *teeLogger) CaptureAspectExit(jp atypes.JoinPointRunType, res *atypes.AspectExecutionResult) {
	l.evs = append(l.evs, tev{K: 'a', JP: int(jp), ResGas: res.Gas, Output: common.CopyBytes(res.Ret), Err: errKind(res.Err), ErrText: errTextOf(res.Err)})
	l.al.CaptureAspectExit(jp, res)
}

// feed replays a synthetic stream into a tracer.
func feed(t tracers.Tracer, env *avm.EVM, evs []tev) (panicked string) {
	defer func() {
		if r := recover(); r != nil {
			panicked = fmt.Sprint(r)
		}
	}()
	al := t.(atypes.AspectLogger)
	for _, e := range evs {
		switch e.K {
		case 'T':
			t.CaptureTxStart(e.Gas)
		case 't':
			t.CaptureTxEnd(e.Gas)
		case 'B':
			t.CaptureStart(env, e.From, e.To, e.Create, e.Input, e.Gas, e.Value)
		case 'E':
			t.CaptureEnd(e.Output, e.GasUsed, evErr(e.Err))
		case '>':
			t.CaptureEnter(avm.OpCode(e.Typ), e.From, e.To, e.Input, e.Gas, e.Value)
		case '<':
			t.CaptureExit(e.Output, e.GasUsed, evErr(e.Err))
		case 'A':
			al.CaptureAspectEnter(atypes.JoinPointRunType(e.JP), e.From, e.To, e.Aspect, e.Input, e.Gas, e.Value, &atypes.PreContractCallInput{})
		case 'a':
			al.CaptureAspectExit(atypes.JoinPointRunType(e.JP), &atypes.AspectExecutionResult{Gas: e.ResGas, Ret: e.Output, Err: evErr(e.Err)})
		}
	}
	return ""
}

// ---------------------------------------------------------------- result shapes

type jFrame struct {
	Type       string         `json:"type"`
	Gas        hexutil.Uint64 `json:"gas"`
	GasUsed    hexutil.Uint64 `json:"gasUsed"`
	Output     hexutil.Bytes  `json:"output"`
	Error      string         `json:"error"`
	Calls      []jFrame       `json:"calls"`
	JoinPoints []jJP          `json:"joinPoints"`
}

type jJP struct {
	Type    string         `json:"type"`
	Gas     hexutil.Uint64 `json:"gas"`
	GasUsed hexutil.Uint64 `json:"gasUsed"`
	Output  hexutil.Bytes  `json:"output"`
	Error   string         `json:"error"`
	Calls   []jFrame       `json:"calls"`
}

func wantErr(kind, text string) string {
	if text != "" {
		return text
	}
	return errText(kind)
}

func errText(kind string) string {
	switch kind {
	case "revert":
		return avm.ErrExecutionReverted.Error()
	case "halt":
		return errHalt.Error()
	}
	return ""
}

func cmpFrame(path string, x *xFrame, j *jFrame, top bool) string {
	if !top && j.Type != x.Typ {
		return fmt.Sprintf("%s: type %s, expected %s", path, j.Type, x.Typ)
	}
	if uint64(j.Gas) != x.Gas || uint64(j.GasUsed) != x.GasUsed {
		return fmt.Sprintf("%s: gas %d used %d, expected gas %d used %d", path, j.Gas, j.GasUsed, x.Gas, x.GasUsed)
	}
	if j.Error != wantErr(x.Err, x.ErrText) {
		return fmt.Sprintf("%s: error %q, expected %q", path, j.Error, wantErr(x.Err, x.ErrText))
	}
	if len(j.Calls) != len(x.Calls) {
		return fmt.Sprintf("%s: %d calls emitted, %d issued by this frame", path, len(j.Calls), len(x.Calls))
	}
	if len(j.JoinPoints) != len(x.JPs) {
		return fmt.Sprintf("%s: %d Aspect executions emitted, %d ran on this frame", path, len(j.JoinPoints), len(x.JPs))
	}
	for i := range x.Calls {
		if d := cmpFrame(fmt.Sprintf("%s.calls[%d]", path, i), x.Calls[i], &j.Calls[i], false); d != "" {
			return d
		}
	}
	for i := range x.JPs {
		if d := cmpJP(fmt.Sprintf("%s.joinPoints[%d]", path, i), x.JPs[i], &j.JoinPoints[i]); d != "" {
			return d
		}
	}
	return ""
}

func cmpJP(path string, x *xJP, j *jJP) string {
	if want := atypes.JoinPointRunType(x.JP).String(); j.Type != want {
		return fmt.Sprintf("%s: type %s, expected %s", path, j.Type, want)
	}
	if uint64(j.Gas) != x.Gas || uint64(j.GasUsed) != x.GasUsed {
		return fmt.Sprintf("%s: gas %d used %d, this Aspect execution was given %d and used %d", path, j.Gas, j.GasUsed, x.Gas, x.GasUsed)
	}
	if j.Error != wantErr(x.Err, x.ErrText) || len(j.Output) != x.OutLen {
		return fmt.Sprintf("%s: error %q output %d bytes, this Aspect execution ended with %q and %d bytes", path, j.Error, len(j.Output), wantErr(x.Err, x.ErrText), x.OutLen)
	}
	if len(j.Calls) != len(x.Calls) {
		return fmt.Sprintf("%s: %d calls emitted, %d issued by this Aspect execution", path, len(j.Calls), len(x.Calls))
	}
	for i := range x.Calls {
		if d := cmpFrame(fmt.Sprintf("%s.calls[%d]", path, i), x.Calls[i], &j.Calls[i], false); d != "" {
			return d
		}
	}
	return ""
}

type jFlat struct {
	Subtraces    int    `json:"subtraces"`
	TraceAddress []int  `json:"traceAddress"`
	Type         string `json:"type"`
	Action       struct {
		Gas      *hexutil.Uint64 `json:"gas"`
		CallType string          `json:"callType"`
		Aspect   *common.Address `json:"aspect"`
	} `json:"action"`
	Result *struct {
		GasUsed *hexutil.Uint64 `json:"gasUsed"`
	} `json:"result"`
	Error string `json:"error"`
}

// countFrames counts the frames the flat tracer must emit.
func countFrames(x *xFrame, includePrecompiles bool) (n int) {
	n = 1 + len(x.JPs)
	for _, j := range x.JPs {
		for _, c := range j.Calls {
			n += countFrames(c, includePrecompiles)
		}
	}
	for _, c := range x.Calls {
		if c.Precompile && !includePrecompiles {
			continue
		}
		n += countFrames(c, includePrecompiles)
	}
	return n
}

// gasSet collects the identities of all frames and Aspect executions to be emitted: kind:gas for every one of
// them, and kind:gas:gasUsed for those whose result the flat format keeps (successful or reverted).
func gasSet(x *xFrame, includePrecompiles bool, out map[string]int) {
	out[fmt.Sprintf("f:%d", x.Gas)]++
	if x.Err != "halt" {
		out[fmt.Sprintf("f:%d:%d", x.Gas, x.GasUsed)]++
	}
	for _, j := range x.JPs {
		out[fmt.Sprintf("a:%d", j.Gas)]++
		if j.Err != "halt" {
			out[fmt.Sprintf("a:%d:%d", j.Gas, j.GasUsed)]++
		}
		for _, c := range j.Calls {
			gasSet(c, includePrecompiles, out)
		}
	}
	for _, c := range x.Calls {
		if c.Precompile && !includePrecompiles {
			continue
		}
		gasSet(c, includePrecompiles, out)
	}
}

func judgeFlat(x *xFrame, raw json.RawMessage, includePrecompiles bool) string {
	var fl []jFlat
	if err := json.Unmarshal(raw, &fl); err != nil {
		return "result does not parse: " + err.Error()
	}
	addr := map[string]int{}
	key := func(a []int) string { return fmt.Sprint(a) }
	for i, f := range fl {
		if _, dup := addr[key(f.TraceAddress)]; dup {
			return fmt.Sprintf("trace address %v appears twice", f.TraceAddress)
		}
		addr[key(f.TraceAddress)] = i
	}
	children := map[string]int{}
	for _, f := range fl {
		if len(f.TraceAddress) == 0 {
			continue
		}
		p := key(f.TraceAddress[:len(f.TraceAddress)-1])
		if _, ok := addr[p]; !ok {
			return fmt.Sprintf("trace address %v has no parent frame (not prefix-closed)", f.TraceAddress)
		}
		children[p]++
	}
	for _, f := range fl {
		if f.Subtraces != children[key(f.TraceAddress)] {
			return fmt.Sprintf("frame %v reports %d subtraces, %d children are emitted", f.TraceAddress, f.Subtraces, children[key(f.TraceAddress)])
		}
	}
	if want := countFrames(x, includePrecompiles); len(fl) != want {
		return fmt.Sprintf("%d frames emitted, the stream has %d (calls + Aspect executions)", len(fl), want)
	}
	// each frame / Aspect execution exactly once, with its own gas and gas used
	want := map[string]int{}
	gasSet(x, includePrecompiles, want)
	got := map[string]int{}
	for _, f := range fl {
		k := "f"
		if f.Action.Aspect != nil {
			k = "a"
		}
		var g uint64
		if f.Action.Gas != nil {
			g = uint64(*f.Action.Gas)
		}
		got[fmt.Sprintf("%s:%d", k, g)]++
		if f.Result != nil && f.Result.GasUsed != nil {
			got[fmt.Sprintf("%s:%d:%d", k, g, uint64(*f.Result.GasUsed))]++
		}
	}
	var keys []string
	for k := range want {
		keys = append(keys, k)
	}
	sort.Strings(keys)
	for _, k := range keys {
		if got[k] != want[k] {
			return fmt.Sprintf("frame %s (kind:gas[:gasUsed]) emitted %d times, expected %d", k, got[k], want[k])
		}
	}
	return ""
}

// ---------------------------------------------------------------- stream generator

type c19Gen struct {
	c      *mc.Ctx
	budget int
	id     uint64
	evs    []tev
	// deep: nesting up to 6 levels over a reduced alphabet (plain successful CALL frames, at most one successful
	// Aspect execution per pre join point) - the shapes where trace addresses get long
	deep bool
}

func (g *c19Gen) nextID() uint64 { g.id++; return g.id }

var c19Kinds = []struct {
	Typ byte
	To  common.Address
}{{0xf1, tAddrs[1]}, {0xfa, tAddrs[2]}, {0xf4, tAddrs[3]}, {0xf0, tAddrs[0]}, {0xf1, scn.Precompile}}

var c19Results = []string{"", "halt", "revert"}

func (g *c19Gen) jps(jpType int, depth int) {
	maxA := 3
	if g.deep {
		if jpType != int(atypes.JoinPointRunType_PreContractCall) {
			return
		}
		maxA = 1
	}
	for n := 0; n < maxA && g.budget > 0 && g.c.Choose(2) == 1; n++ {
		g.budget--
		id := g.nextID()
		gas := 100000 + id*1000
		g.evs = append(g.evs, tev{K: 'A', JP: jpType, From: tAddrs[0], To: tAddrs[1], Aspect: scn.AspectIDs[n%2], Gas: gas})
		res := ""
		if depth > 0 {
			// calls issued from inside the Aspect (transaction-level join points are kept plain)
			g.children(depth)
			if !g.deep {
				res = c19Results[g.c.Choose(3)]
			}
		}
		var out []byte
		if res == "revert" {
			out = run.PackRevert("nope")
		}
		g.evs = append(g.evs, tev{K: 'a', JP: jpType, ResGas: gas - (10 + id), Output: out, Err: res})
	}
}

func (g *c19Gen) children(depth int) {
	limit := 3
	if g.deep {
		limit = 6
	}
	for n := 0; n < 2 && depth < limit && g.budget > 0 && g.c.Choose(2) == 1; n++ {
		g.budget--
		k := c19Kinds[0]
		if !g.deep {
			k = c19Kinds[g.c.Choose(len(c19Kinds))]
		}
		id := g.nextID()
		gas := 100000 + id*1000
		var val *big.Int
		if k.Typ == 0xf1 || k.Typ == 0xf0 {
			val = big.NewInt(0)
		}
		g.evs = append(g.evs, tev{K: '>', Typ: k.Typ, From: tAddrs[0], To: k.To, Input: []byte{byte(id)}, Gas: gas, Value: val})
		if k.To != scn.Precompile {
			g.body(depth + 1)
		}
		res := ""
		if !g.deep {
			res = c19Results[g.c.Choose(3)]
		}
		out := []byte{0xaa, byte(id)}
		if res == "revert" {
			out = run.PackRevert("no")
		}
		g.evs = append(g.evs, tev{K: '<', Output: out, GasUsed: 10 + id, Err: res})
	}
}

func (g *c19Gen) body(depth int) {
	g.jps(int(atypes.JoinPointRunType_PreContractCall), depth)
	g.children(depth)
	g.jps(int(atypes.JoinPointRunType_PostContractCall), depth)
}

// c19StreamDeep: one successful top frame with up to 6 levels below it (see c19Gen.deep).
func c19StreamDeep(c *mc.Ctx, budget int) []tev {
	g := &c19Gen{c: c, budget: budget, deep: true}
	g.evs = append(g.evs, tev{K: 'T', Gas: 5_000_000})
	g.evs = append(g.evs, tev{K: 'B', From: tAddrs[0], To: tAddrs[1], Input: []byte{1, 2, 3, 4}, Gas: 4_900_000, Value: big.NewInt(0)})
	g.body(1)
	g.evs = append(g.evs, tev{K: 'E', Output: []byte{0xee}, GasUsed: 4242})
	g.evs = append(g.evs, tev{K: 't', Gas: 1_000_000})
	return g.evs
}

func c19Stream(c *mc.Ctx, budget int) []tev {
	g := &c19Gen{c: c, budget: budget}
	g.evs = append(g.evs, tev{K: 'T', Gas: 5_000_000})
	if c.Choose(2) == 1 {
		g.budget++ // the tx-level join points do not eat into the budget of the frame body
		save := g.budget
		g.budget = 1
		g.jps(int(atypes.JoinPointRunType_PreTxExecute), 0)
		g.budget = save - 1
	}
	g.evs = append(g.evs, tev{K: 'B', From: tAddrs[0], To: tAddrs[1], Input: []byte{1, 2, 3, 4}, Gas: 4_900_000, Value: big.NewInt(0)})
	g.body(1)
	res := c19Results[c.Choose(3)]
	g.evs = append(g.evs, tev{K: 'E', Output: []byte{0xee}, GasUsed: 4242, Err: res})
	if c.Choose(2) == 1 {
		save := g.budget
		g.budget = 1
		g.jps(int(atypes.JoinPointRunType_PostTxExecute), 0)
		g.budget = save
	}
	g.evs = append(g.evs, tev{K: 't', Gas: 1_000_000})
	return g.evs
}

func streamText(evs []tev) string {
	var sb strings.Builder
	for _, e := range evs {
		switch e.K {
		case '>':
			fmt.Fprintf(&sb, ">%s(%d) ", avm.OpCode(e.Typ), e.Gas)
		case '<':
			fmt.Fprintf(&sb, "<%s ", e.Err)
		case 'A':
			fmt.Fprintf(&sb, "A%d(%d) ", e.JP, e.Gas)
		case 'a':
			fmt.Fprintf(&sb, "a%d:%s ", e.JP, e.Err)
		case 'E':
			fmt.Fprintf(&sb, "E:%s ", e.Err)
		default:
			sb.WriteByte(e.K)
			sb.WriteByte(' ')
		}
	}
	return sb.String()
}

// ---------------------------------------------------------------- judging one stream under all configurations

var c19Env = func() *avm.EVM {
	cs := gen.StdCase(world.Shanghai, nil, "call", 100000)
	return world.NewA(cs, world.AOpts{}).EVM
}()

type tracerCfg struct {
	Name string
	Cfg  string
}

var c19Configs = []tracerCfg{
	{"callTracer", `{}`}, {"callTracer", `{"onlyTopCall":true}`}, {"callTracer", `{"withLog":true}`}, {"callTracer", `{"onlyTopCall":true,"withLog":true}`},
	{"flatCallTracer", `{}`}, {"flatCallTracer", `{"convertParityErrors":true}`}, {"flatCallTracer", `{"includePrecompiles":true}`}, {"flatCallTracer", `{"convertParityErrors":true,"includePrecompiles":true}`},
}

// judgeTracerResult applies the oracle to the result of one tracer configuration.
func judgeTracerResult(cfg tracerCfg, x *xFrame, res json.RawMessage, err error) (sig, detail string) {
	label := cfg.Name
	if err != nil {
		return label + ":result_error", err.Error()
	}
	if cfg.Name == "callTracer" {
		var j jFrame
		if e := json.Unmarshal(res, &j); e != nil {
			return label + ":unparsable", e.Error()
		}
		if strings.Contains(cfg.Cfg, `"onlyTopCall":true`) {
			// only the top frame and the Aspect executions on it are judged; executions of nested frames are attributed
			// to the top frame by this configuration and are skipped when matching
			if uint64(j.Gas) != x.Gas || uint64(j.GasUsed) != x.GasUsed || j.Error != wantErr(x.Err, x.ErrText) {
				return label + ":top_frame", fmt.Sprintf("top frame gas %d used %d error %q, expected %d %d %q", j.Gas, j.GasUsed, j.Error, x.Gas, x.GasUsed, errText(x.Err))
			}
			k := 0
			for i := range j.JoinPoints {
				if k < len(x.JPs) && uint64(j.JoinPoints[i].Gas) == x.JPs[k].Gas {
					jp := j.JoinPoints[i]
					jp.Calls = nil
					xx := *x.JPs[k]
					xx.Calls = nil
					if d := cmpJP(fmt.Sprintf("joinPoints[%d]", i), &xx, &jp); d != "" {
						return label + ":aspect_frame", d
					}
					k++
				}
			}
			if k != len(x.JPs) {
				return label + ":aspect_missing", fmt.Sprintf("%d of the top frame's %d Aspect executions are emitted", k, len(x.JPs))
			}
			return "", ""
		}
		if d := cmpFrame("top", x, &j, true); d != "" {
			kind := "frame"
			if strings.Contains(d, "joinPoints") || strings.Contains(d, "Aspect execution") {
				kind = "aspect_frame"
			}
			return label + ":" + kind, d
		}
		return "", ""
	}
	if d := judgeFlat(x, res, strings.Contains(cfg.Cfg, `"includePrecompiles":true`)); d != "" {
		kind := "flat"
		switch {
		case strings.Contains(d, "subtraces"):
			kind = "subtraces"
		case strings.Contains(d, "trace address"):
			kind = "trace_address"
		case strings.Contains(d, "emitted"):
			kind = "frame_count"
		}
		return label + ":" + kind, d
	}
	return "", ""
}

func c19Judge(evs []tev) (sig, detail string) {
	x, ok := expectTree(evs)
	if !ok {
		return "harness", "generated stream is not a sentence of the grammar: " + streamText(evs)
	}
	for _, cfg := range c19Configs {
		t, err := tracers.DefaultDirectory.New(cfg.Name, &tracers.Context{}, json.RawMessage(cfg.Cfg))
		if err != nil {
			return "harness", err.Error()
		}
		if p := feed(t, c19Env, evs); p != "" {
			return cfg.Name + ":panic:" + normPanic(p), fmt.Sprintf("%s %s panicked: %s", cfg.Name, cfg.Cfg, p)
		}
		res, rerr := t.GetResult()
		if s, d := judgeTracerResult(cfg, x, res, rerr); s != "" {
			return s, fmt.Sprintf("%s %s: %s", cfg.Name, cfg.Cfg, d)
		}
	}
	return "", ""
}

// c19Conform runs a scenario on the real EVM with each tracer configuration attached (through a recording tee):
// the emitted stream must be a sentence of the grammar and the tracer's result must satisfy the same oracle.
func c19Conform(s *scn.Scn, answers []scn.Answer) (sig, detail string, events int) {
	for _, cfg := range c19Configs {
		t, err := tracers.DefaultDirectory.New(cfg.Name, &tracers.Context{}, json.RawMessage(cfg.Cfg))
		if err != nil {
			return "harness", err.Error(), 0
		}
		tee := &teeLogger{t: t, al: t.(atypes.AspectLogger)}
		t.CaptureTxStart(scn.TopGas)
		r := scn.Exec(s, scn.RunOpts{Logger: tee, Answer: func(k int, pre bool) scn.Answer {
			if k < len(answers) {
				return answers[k]
			}
			return scn.Answer{}
		}})
		if r.Panic != "" {
			return cfg.Name + ":panic:" + normPanic(r.Panic), fmt.Sprintf("%s %s: execution panicked: %s", cfg.Name, cfg.Cfg, r.Panic), 0
		}
		t.CaptureTxEnd(r.Gas)
		// bracket with tx start/end as the host does
		evs := append([]tev{{K: 'T', Gas: scn.TopGas}}, tee.evs...)
		evs = append(evs, tev{K: 't', Gas: r.Gas})
		events = len(evs)
		x, ok := expectTree(evs)
		if !ok {
			return "conformance:not_in_grammar", "the EVM emitted a stream outside the enumerated grammar: " + streamText(evs), events
		}
		res, rerr := t.GetResult()
		if sg, d := judgeTracerResult(cfg, x, res, rerr); sg != "" {
			return "conformance:" + sg, fmt.Sprintf("%s %s on a real execution: %s\nstream: %s", cfg.Name, cfg.Cfg, d, streamText(evs)), events
		}
	}
	return "", "", events
}

type c19Replay struct {
	Choices []int        `json:"choices,omitempty"`
	Budget  int          `json:"budget,omitempty"`
	Deep    bool         `json:"deep,omitempty"`
	Scn     *scn.Scn     `json:"scn,omitempty"`
	Answers []scn.Answer `json:"answers,omitempty"`
}

func c19Budget(tier string) int {
	if tier == "thorough" {
		return 4
	}
	return 3
}

func init() {
	register(&Check{
		ID:        "C19",
		Level:     "model_checking",
		Technique: "complete enumeration of the well-nested event-stream grammar up to a frame budget, each stream fed directly to callTracer and flatCallTracer under all 8 configurations and judged against the tree the stream denotes (stack-machine model); conformance: real EVM executions with the tracers attached must emit sentences of the grammar and satisfy the same oracle",
		Rule: "streams = TxStart PreTx? Start Body End PostTx? TxEnd; Body = PreJP{0..3} Child{0..2} PostJP{0..3}; Child = Enter(kind in CALL, STATICCALL, DELEGATECALL, CREATE, CALL to a precompile) Body Exit(result in ok, halt, revert); JP = AspectEnter Child{0..2} AspectExit(result); nesting <= 3; at most B frames + Aspect executions in total; plus deep streams (nesting <= 6 over successful CALL frames and single pre-join-point Aspect executions, at most 7 / 9 of them); every frame and Aspect execution has its own gas / gas-used identity. Oracle: no panic; result parses; nested result has every call exactly once under the frame or Aspect execution that issued it and every Aspect execution with its own gas used, output and error; flat result: frame count, subtraces == emitted children, trace addresses distinct and prefix-closed, every frame identity exactly once. Conformance family: depth-3 scenario chains with Aspects bound everywhere and failing answers, tracers attached to the real EVM. non-trivial = distinct streams with at least one Aspect execution",
		Assumptions: []string{"under onlyTopCall only the top frame and its own Aspect executions are judged"},
		Bounds: func(t string) map[string]any {
			return map[string]any{"frame_budget": c19Budget(t), "max_depth": 3, "configurations": len(c19Configs)}
		},
		Quick:    60 * time.Second,
		Thorough: 30 * time.Minute,
		Run: func(w *fw.W) {
			// conformance on real executions
			fam := chainFamily(w.Tier, []scn.Effect{scn.ENone}, func(o *scnOpts) { o.NAspects = []int{1, 2}; o.Gen.Targets = []scn.Target{scn.TgChild, scn.TgPrecompile} })
			mc.Explore(1, func(c *mc.Ctx) {
				s := genScn(c, fam.O)
				if !w.MineKey(fw.Hash(s.String())) {
					return
				}
				// answers are drawn once through a plain run, then replayed under every tracer configuration
				r := scn.Exec(s, scn.RunOpts{Answer: func(k int, pre bool) scn.Answer { return failAlphabet[c.Deviate(len(failAlphabet))] }})
				ans := append([]scn.Answer{}, r.Answers...)
				sig, detail, n := c19Conform(s, ans)
				w.Evals += int64(len(c19Configs))
				w.Transitions += int64(n * len(c19Configs))
				w.Extra("conformance_executions", 1)
				h := fw.Hash("conf", s.String(), describeAnswers(ans))
				w.State(h)
				if len(r.Firings) > 0 {
					w.Nontrivial(h)
				}
				if sig == "harness" {
					w.Notes = append(w.Notes, "HARNESS ERROR: C19 "+detail)
					return
				}
				if sig != "" {
					w.Violate(sig, detail+"\n"+s.String()+describeAnswers(ans), c19Replay{Scn: s, Answers: ans})
				}
			}, func() bool { return w.Expired() })
			b := c19Budget(w.Tier)
			// deep shapes first (small family): up to 6 levels of plain calls and Aspect executions, at most 7 (9) of them
			db := 7
			if w.Thorough() {
				db = 9
			}
			mc.Explore(0, func(c *mc.Ctx) {
				evs := c19StreamDeep(c, db)
				if !w.Mine() {
					return
				}
				sig, detail := c19Judge(evs)
				w.Evals += int64(len(c19Configs))
				w.Transitions += int64(len(evs) * len(c19Configs))
				txt := streamText(evs)
				h := fw.Hash("deep", txt)
				w.State(h)
				if strings.Contains(txt, "A") {
					w.Nontrivial(h)
				}
				w.Extra("deep_streams", 1)
				if sig == "harness" {
					w.Notes = append(w.Notes, "HARNESS ERROR: C19 "+detail)
					return
				}
				if sig != "" {
					w.Violate(sig, detail+"\nstream: "+txt, c19Replay{Choices: c.Choices(), Budget: db, Deep: true})
				}
			}, func() bool { return w.Expired() })
			mc.Explore(0, func(c *mc.Ctx) {
				evs := c19Stream(c, b)
				if !w.Mine() {
					return
				}
				sig, detail := c19Judge(evs)
				w.Evals += int64(len(c19Configs))
				w.Transitions += int64(len(evs) * len(c19Configs))
				txt := streamText(evs)
				h := fw.Hash(txt)
				w.State(h)
				if strings.Contains(txt, "A") {
					w.Nontrivial(h)
				}
				if w.Evals%80009 < 8 {
					w.Sample(map[string]any{"stream": txt})
				}
				if sig == "harness" {
					w.Notes = append(w.Notes, "HARNESS ERROR: C19 "+detail)
					return
				}
				if sig != "" {
					w.Violate(sig, detail+"\nstream: "+txt, c19Replay{Choices: c.Choices(), Budget: b})
				}
			}, func() bool { return w.Expired() })
		},
		Replay: func(raw json.RawMessage) []fw.Violation {
			var rp c19Replay
			if err := json.Unmarshal(raw, &rp); err != nil {
				panic(err)
			}
			var sig, detail string
			if rp.Scn != nil {
				sig, detail, _ = c19Conform(rp.Scn, rp.Answers)
			} else {
				var evs []tev
				mc.Replay(rp.Choices, func(c *mc.Ctx) {
					if rp.Deep {
						evs = c19StreamDeep(c, rp.Budget)
					} else {
						evs = c19Stream(c, rp.Budget)
					}
				})
				sig, detail = c19Judge(evs)
			}
			if sig == "" {
				return nil
			}
			return []fw.Violation{{Sig: sig, Detail: detail, Case: raw}}
		},
	})
}
