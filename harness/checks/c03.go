package checks

import (
	"encoding/json"
	"fmt"
	"strconv"
	"strings"
	"time"

	avm "github.com/artela-network/artela-evm/vm"
	"github.com/ethereum/go-ethereum/common"
	"github.com/holiman/uint256"
	"verif/asm"
	"verif/fw"
	"verif/gen"
	"verif/mc"
	"verif/world"
)

// C03 — no bytecode, calldata or storage content can crash the VM; bookkeeping closed afterwards.

type c03Replay struct {
	Family string      `json:"family"`
	Label  string      `json:"label"`
	Case   *world.Case `json:"case"`
	Ans    int         `json:"host_ans"`
}

// c03Rebuild reconstructs a case of family JM/PC from its choice vector (used to attribute a worker death).
func c03Rebuild(family, tier, choices string) (rep c03Replay, ok bool) {
	var ch []int
	for _, t := range strings.Split(choices, ",") {
		if t == "" {
			continue
		}
		v, err := strconv.Atoi(t)
		if err != nil {
			return rep, false
		}
		ch = append(ch, v)
	}
	th := tier == "thorough"
	defer func() {
		if recover() != nil {
			ok = false
		}
	}()
	mc.Replay(ch, func(c *mc.Ctx) {
		switch family {
		case "JM":
			jc := buildJM(c, th, true)
			rep = c03Replay{family, jc.Op, jc.Case, 0}
		case "PC":
			pc := buildPC(c, th)
			rep = c03Replay{family, fmt.Sprintf("%#x:%s", pc.Target, pc.Reach.Kind), pc.Case, pc.HostAns}
		}
	})
	return rep, rep.Case != nil
}

// c03Exec runs one case under recover with the work sentinel armed and applies the oracle.
func c03Exec(cs *world.Case, ans int, label string) (sig, detail string, failed bool) {
	probe := &startProbe{}
	log := &hostLog{}
	env := world.NewA(cs, world.AOpts{Tracer: probe, Host: scriptedHost(ans, log)})
	env.DB.ReadLimit = c03ReadSentinel
	_, _, _, err, p := env.Call(cs)
	if p != "" {
		if world.IsSentinel(p) {
			return "unbounded:" + label + ":state_reads", "execution exceeded the state-read sentinel (work sentinel): " + cs.Note, true
		}
		return "panic:" + label + ":" + normPanic(p), "entry point panicked: " + p + "\n" + cs.Note, true
	}
	env.DB.ReadLimit = 0
	if q := c03Queries(env); q != "" {
		return "panic:query:" + normPanic(q), "a recorder query panicked after the execution: " + q + "\n" + cs.Note, err != nil
	}
	if d := bookkeepingClosed(env, probe, cs.Fork); d != "" {
		return "bookkeeping:" + label, d + "\n" + cs.Note, err != nil
	}
	return "", "", err != nil
}

func c03Bound(tier string) int {
	if tier == "thorough" {
		return 3
	}
	return 2
}

func c03ForEach(w *fw.W, fn func(family string, cs *world.Case, ans int, label string, choices []int)) {
	th := w.Thorough()
	stop := func() bool { return w.Expired() }
	// the small families come first, so that a run cut by its deadline has covered them
	// (e) frames of every kind over every kind of target: the six host entry points and the six call/create
	// instructions aimed at code-less, absent, stopping, failing and reverting targets / init codes (a frame that
	// ends before its first instruction still has to close its bookkeeping)
	codes := [][]byte{nil, {asm.STOP}, {asm.INVALID}, asm.New().Push(0).Push(0).Op(asm.REVERT).Bytes(), asm.New().Push(0).Push(0).Op(asm.RETURN).Bytes()}
	for _, f := range []world.Fork{world.Frontier, world.Byzantium, world.Shanghai} {
		for ci, code := range codes {
			for _, e := range []string{"call", "callcode", "delegatecall", "staticcall", "create", "create2"} {
				if (e == "staticcall" && f < world.Byzantium) || (e == "create2" && f < world.Constantinople) {
					continue
				}
				for _, absent := range []bool{false, true} {
					for _, val := range []uint64{0, 1} {
						if (absent && (e == "create" || e == "create2")) || (val != 0 && (e == "delegatecall" || e == "staticcall")) || !w.Mine() {
							continue
						}
						cs := gen.StdCase(f, code, e, 100000)
						if e == "create" || e == "create2" {
							cs.Input, cs.Salt = code, 5
						}
						if absent {
							cs.To = gen.Absent
						}
						if val != 0 {
							cs.Value = world.Big(val)
						}
						cs.Note = fmt.Sprintf("FRAMES host entry=%s code=%d absent=%v value=%d", e, ci, absent, val)
						fn("FRAMES", cs, 0, "frames:"+e, nil)
					}
				}
			}
		}
		for _, spec := range gen.StdOps() {
			switch spec.Op {
			case asm.CALL, asm.CALLCODE, asm.DELEGATECALL, asm.STATICCALL, asm.CREATE, asm.CREATE2, asm.SELFDESTRUCT:
			default:
				continue
			}
			spec, f := spec, f
			gen.ExploreOperands(spec, 1, func(ops []*uint256.Int, choice []int) {
				if !w.Mine() {
					return
				}
				for _, entry := range []string{"call", "staticcall"} {
					if entry == "staticcall" && f < world.Byzantium {
						continue
					}
					cs := gen.StdCase(f, gen.BuildIM(f, spec, gen.Shape{}, ops), entry, 200000)
					cs.Note = fmt.Sprintf("FRAMES op=%#x entry=%s operands=%v", spec.Op, entry, choice)
					fn("FRAMES", cs, 0, "frames:"+avm.OpCode(spec.Op).String(), nil)
				}
			})
		}
	}
	// (d) sequences of journal instructions on one recorder (registrations, journals, nested registrations in any order)
	steps := c03SeqSteps()
	L := 3
	if th {
		L = 4
	}
	for _, f := range []world.Fork{world.Frontier, world.Shanghai} {
		f := f
		gen.ForEachSeq(len(steps), L, func(seq []int) {
			if len(seq) == 0 || !w.Mine() || w.Expired() {
				return
			}
			for _, static := range []bool{false, true} {
				prog := &gen.JProgram{}
				for _, nm := range []struct {
					off uint64
					s   string
				}{{0x200, "m"}, {0x240, "x"}, {0x280, "y"}, {0x2c0, "k"}} {
					prog.Mem = append(prog.Mem, gen.StrWords(nm.off, []byte(nm.s))...)
				}
				var names []string
				for _, i := range seq {
					prog.Steps = append(prog.Steps, steps[i].Step)
					names = append(names, steps[i].Name)
				}
				st := map[common.Hash]common.Hash{{}: gen.Pattern, common.HexToHash("0x2"): gen.Pattern}
				for k, v := range gen.EncodeString(uint256.NewInt(1), []byte("hello")) {
					st[k] = v
				}
				for k, v := range gen.EncodeString(uint256.NewInt(3), gen.PatternBytes(40)) {
					st[k] = v
				}
				cs := gen.JCase(f, prog.Code(), st, static, 300000)
				cs.Note = fmt.Sprintf("JSEQ static=%v [%s]", static, strings.Join(names, " ; "))
				fn("JSEQ", cs, 0, "journal_sequence", nil)
			}
		})
	}
	// (b) journal matrix
	mc.Explore(c03Bound(w.Tier), func(c *mc.Ctx) {
		jc := buildJM(c, th, true)
		if !w.Mine() {
			return
		}
		fn("JM", jc.Case, 0, jc.Op, c.Choices())
	}, stop)
	// (c) Artela precompiles
	mc.Explore(c03Bound(w.Tier), func(c *mc.Ctx) {
		pc := buildPC(c, th)
		if !w.Mine() {
			return
		}
		fn("PC", pc.Case, pc.HostAns, fmt.Sprintf("%#x:%s", pc.Target, pc.Reach.Kind), c.Choices())
	}, stop)
	// (a) every byte string of length <= 2 as code, including the Artela bytes
	for _, f := range jmForks {
		for n := 0; n < 65536+256+1; n++ {
			if !w.Mine() {
				continue
			}
			if w.Expired() {
				return
			}
			var raw []byte
			switch {
			case n < 65536:
				raw = []byte{byte(n >> 8), byte(n)}
			case n < 65536+256:
				raw = []byte{byte(n)}
			}
			if !th && !gen.HasArtelaOp(gen.BuildBytes(raw, true)) && n%7 != 0 {
				// quick: all programs containing a journal opcode plus every 7th standard one
				continue
			}
			for _, seeded := range []bool{false, true} {
				code := gen.BuildBytes(raw, seeded)
				cs := gen.StdCase(f, code, "call", 100000)
				cs.Note = fmt.Sprintf("BYTES %x seeded=%v", raw, seeded)
				fn("BYTES", cs, 0, "bytes", nil)
				if !gen.HasArtelaOp(code) {
					continue
				}
				// programs with a journal opcode: every entry point, values, and gas limits around the flat fee
				for _, e := range []string{"callcode", "delegatecall", "staticcall", "create", "create2"} {
					for _, gas := range []uint64{100000, 830, 799, 21} {
						cs := gen.StdCase(f, code, e, gas)
						if e == "create" || e == "create2" {
							cs.Input, cs.Salt = code, 3
						}
						if e == "callcode" || e == "create" {
							cs.Value = world.Big(1)
						}
						cs.Note = fmt.Sprintf("BYTES %x seeded=%v entry=%s gas=%d", raw, seeded, e, gas)
						fn("BYTES", cs, 0, "bytes", nil)
					}
				}
			}
		}
	}
}

type c03Step struct {
	Name string
	Step gen.JStep
}

// c03SeqSteps is the alphabet of the journal-sequence family.
func c03SeqSteps() []c03Step {
	A, B := u256(gen.TypeA), u256(gen.TypeB)
	s := func(op byte, operands ...*uint256.Int) gen.JStep { return gen.JStep{Op: op, Operands: operands} }
	return []c03Step{
		{"reg ref m@1", s(0xe0, n(0x200), n(1), B)},
		{"reg val x@0/0", s(0xe1, n(0x240), n(0), n(0), A)},
		{"reg val y@0/4", s(0xe1, n(0x280), n(0), n(4), A)},
		{"reg m[k]@2 (ref key)", s(0xe2, n(1), n(2), n(0x2c0), n(0), A, B)},
		{"reg m[7]@2 (val key)", s(0xe4, n(1), n(2), n(7), n(0), A, B)},
		{"reg m[k]@3 ref (ref key)", s(0xe3, n(1), n(3), n(0x2c0), A, B)},
		{"reg m[7]@3 ref (val key)", s(0xe5, n(1), n(3), n(7), A, B)},
		{"reg under value node 2", s(0xe2, n(2), n(5), n(0x2c0), n(0), A, A)},
		{"journal x", s(0xe6, n(0), n(0), n(32), A)},
		{"journal @2", s(0xe6, n(2), n(0), n(32), A)},
		{"journal ref m", s(0xe7, n(1), B)},
		{"journal ref @3", s(0xe7, n(3), A)},
	}
}

func choicesText(ch []int) string {
	s := make([]string, len(ch))
	for i, c := range ch {
		s[i] = strconv.Itoa(c)
	}
	return strings.Join(s, ",")
}

func init() {
	register(&Check{
		ID:        "C03",
		Level:     "model_checking",
		Technique: "bounded exhaustive enumeration of byte programs, journal-opcode operand/memory/storage boundary products and Artela-precompile payload/reach products, each executed on the real code under recover() in memory-limited worker processes with a state-access sentinel; post-condition on the same EVM",
		Rule: "cases = (a) every byte string of length <=2 as code (bare and with seeded stack) on 5 forks; (b) journal matrix: opcode 0xe0-0xe7 x operand tuples with <=k non-default operands from the boundary alphabet J x memory under the pointer (length word from J, 0-2 data words, or empty) x storage head word alphabet (short/long/invalid string encodings, huge lengths) x key registered or not x static or not x 5 forks; (c) precompiles 0x64-0x66 x 12 reaches (4 call kinds from depth 1 and 2, 4 host entry points) x payload lengths x ABI head/length words with <=k deviations x host answer x 3 forks; (d) sequences of <= 3 (4) journal instructions on one recorder; (e) the six host entry points and the six call/create instructions (operand tuples with <= 1 deviation) aimed at code-less, absent, stopping, failing and reverting targets / init codes on Frontier, Byzantium, Shanghai. Oracle: the entry point returns (no Go panic, worker alive), then depth==0, call-tree cursor nil, static flag clear and a follow-up call on the same EVM is announced as a depth-0 start. non-trivial = distinct cases whose frame ended with an error",
		Assumptions: []string{
			"initialised host: non-nil block number, Aspect instance created, context callbacks installed, StateDB prepared",
			"operand/length values outside the boundary alphabet J are not covered",
			"a worker death (fatal error) is attributed to the case named last in the worker's progress file",
		},
		Bounds: func(t string) map[string]any {
			return map[string]any{"operand_deviation_bound": c03Bound(t), "alphabet_J": map[string]int{"quick": len(gen.JBoundaryQuick), "thorough": len(gen.JBoundary)}[t], "forks": len(jmForks), "payload_lengths": len(gen.PayloadLengths), "state_read_sentinel": c03ReadSentinel}
		},
		Quick:      120 * time.Second,
		Thorough:   30 * time.Minute,
		CrashAware: true,
		MemLimitKB: 8 << 20,
		CrashSig: func(desc string) (string, json.RawMessage) {
			// desc = family \t tier \t choice vector
			parts := strings.SplitN(desc, "\t", 3)
			if len(parts) == 3 {
				if rep, ok := c03Rebuild(parts[0], parts[1], parts[2]); ok {
					return "fatal:" + rep.Label, mustJSON(rep)
				}
			}
			return "crash:worker_death", mustJSON(desc)
		},
		Run: func(w *fw.W) {
			c03ForEach(w, func(family string, cs *world.Case, ans int, label string, ch []int) {
				rep := c03Replay{family, label, cs, ans}
				if family != "BYTES" {
					w.MarkProgress(family + "\t" + w.Tier + "\t" + choicesText(ch))
				}
				sig, detail, failed := c03Exec(cs, ans, label)
				w.Evals++
				w.Transitions++
				w.Extra("cases_"+family, 1)
				h := fw.Hash(cs.Note, cs.ForkName)
				w.State(h)
				if sig != "" {
					for i := 0; i < 4; i++ {
						if s2, _, _ := c03Exec(cs, ans, label); s2 != sig {
							w.Notes = append(w.Notes, "UNREPRODUCED: C03 violation did not reproduce: "+cs.Note)
							return
						}
					}
					w.Violate(sig, detail, rep)
					w.Nontrivial(h)
					return
				}
				if failed {
					w.Nontrivial(h)
				}
				if w.Evals%30011 == 1 {
					w.Sample(map[string]any{"family": family, "note": cs.Note, "fork": cs.ForkName})
				}
			})
		},
		Replay: func(raw json.RawMessage) []fw.Violation {
			var rep c03Replay
			if err := json.Unmarshal(raw, &rep); err != nil || rep.Case == nil {
				panic(fmt.Sprint("bad replay case: ", err))
			}
			sig, detail, _ := c03Exec(rep.Case, rep.Ans, rep.Label)
			if sig == "" {
				return nil
			}
			return []fw.Violation{{Sig: sig, Detail: detail, Case: raw}}
		},
	})
}

// c03ReadSentinel: an execution of one of the tiny generated programs that performs more state reads than this is
// cut off and reported as unbounded work (the largest bounded case, a 2^20-byte string, needs 32768 reads).
const c03ReadSentinel = 100000

// c03Queries exercises the recorder's public query API after an execution; returns the panic text if one panics.
func c03Queries(env *world.AEnv) (p string) {
	defer func() {
		if r := recover(); r != nil {
			p = fmt.Sprint(r)
		}
	}()
	sc := env.EVM.Tracer().StateChanges()
	for _, name := range []string{"m", "x", "y", "k"} {
		if k := sc.FindKeyIndices(gen.T, name); k != nil {
			k.Children()
			k.ChildrenIndices()
			k.Changes()
			for _, ix := range k.ChildrenIndices() {
				sc.Variable(gen.T, name, ix)
				sc.IndicesOfChanges(gen.T, name, ix)
			}
		}
		sc.IndicesOfChanges(gen.T, name)
		sc.Variable(gen.T, name)
	}
	for _, slot := range []uint64{0, 1, 2, 3} {
		sc.Slot(gen.T, uint256.NewInt(slot), nil, gen.TypeA)
		sc.Slot(gen.T, uint256.NewInt(slot), uint256.NewInt(40), gen.TypeB)
	}
	sc.Balance(gen.T)
	ct := env.EVM.Tracer().CallTree()
	ct.Root()
	ct.ChildrenOf(0)
	ct.ParentOf(0)
	ct.FindCall(1 << 40)
	return ""
}
