package checks

import (
	"math/big"
	"encoding/json"
	"fmt"
	"time"

	"verif/fw"
	"verif/mc"
	"verif/scn"
	"verif/world"
)

// Generic driver of the scenario-based checks.

type scnCheck struct {
	ID         string
	Opts       func(tier string) (o *scnOpts, bound int, modes [][]bool)
	Judge      func(s *scn.Scn, r *scn.Run, m *scn.MResult) (sig, detail string)
	Nontrivial func(s *scn.Scn, r *scn.Run, m *scn.MResult) bool
	// More returns further (options, bound, modes) families explored after the main one (e.g. deeper trees over a
	// reduced alphabet).
	More func(tier string) []scnFamily
	// Special runs hand-built scenarios outside the grammar.
	Special func(w *fw.W)
}

type scnFamily struct {
	O     *scnOpts
	Bound int
	Modes [][]bool
}

func (sc *scnCheck) run(w *fw.W) {
	var fams []scnFamily
	tiers := []string{w.Tier}
	if w.Thorough() {
		tiers = []string{"quick", "thorough"} // the quick families first, then the deeper ones
	}
	for _, t := range tiers {
		o, bound, modeSets := sc.Opts(t)
		fams = append(fams, scnFamily{o, bound, modeSets})
		if sc.More != nil {
			fams = append(fams, sc.More(t)...)
		}
	}
	if sc.Special != nil {
		sc.Special(w) // small dedicated families outside the grammar: first, so that a deadline never cuts them
	}
	for fi, f := range fams {
		sc.runFamily(w, fi, f)
	}
}

func (sc *scnCheck) runFamily(w *fw.W, fi int, f scnFamily) {
	o, bound, modeSets := f.O, f.Bound, f.Modes
	if len(modeSets) == 0 {
		modeSets = [][]bool{nil}
	}
	mc.Explore(bound, func(c *mc.Ctx) {
		s := genScn(c, o)
		var modes []bool
		if len(modeSets) > 1 {
			modes = modeSets[c.Choose(len(modeSets))]
		} else {
			modes = modeSets[0]
		}
		if !w.MineKey(fw.Hash(s.String())) {
			return
		}
		r, m := execScnSeq(c, s, o.Answers, modes, false)
		w.Evals++
		w.Transitions += int64(len(r.Rec.All))
		w.Extra(fmt.Sprintf("family_%d_executions", fi), 1)
		key := fmt.Sprint(s) + describeAnswers(r.Answers) + fmt.Sprint(modes)
		h := fw.Hash(key)
		w.State(h)
		if sc.Nontrivial(s, r, m) {
			w.Nontrivial(h)
		}
		if w.Evals%30011 == 1 {
			w.Sample(map[string]any{"scenario": s.String(), "answers": describeAnswers(r.Answers), "modes": modes})
		}
		if sig, detail := sc.Judge(s, r, m); sig != "" {
			ans := append([]scn.Answer{}, r.Answers...)
			if sig == "harness" {
				w.Notes = append(w.Notes, "HARNESS ERROR: "+sc.ID+" "+detail+" :: "+key)
				return
			}
			for i := 0; i < 4; i++ {
				r2, m2 := replayScnSeq(s, ans, modes, false)
				if s2, _ := sc.Judge(s, r2, m2); s2 != sig {
					w.Notes = append(w.Notes, "UNREPRODUCED: "+sc.ID+" violation did not reproduce: "+key)
					return
				}
			}
			w.Violate(sig, detail+"\n"+key, scnSeqReplay{s, ans, modes})
		}
	}, func() bool { return w.Expired() })
}

func (sc *scnCheck) replay(raw json.RawMessage) []fw.Violation {
	var sp struct {
		Special string     `json:"special"`
		Fork    world.Fork `json:"fork"`
		Entry   string     `json:"entry"`
		Value   string     `json:"value"`
	}
	if json.Unmarshal(raw, &sp) == nil && sp.Special == "wide_value" {
		v, _ := new(big.Int).SetString(sp.Value, 10)
		if sig, detail := wideValueRun(sp.Fork, sp.Entry, v); sig != "" {
			return []fw.Violation{{Sig: "wide_value:" + sig, Detail: detail, Case: raw}}
		}
		return nil
	}
	if json.Unmarshal(raw, &sp) == nil && sp.Special == "depth_limit" {
		if sig, detail := depthLimitRun(sp.Fork); sig != "" {
			return []fw.Violation{{Sig: "depth_limit:" + sig, Detail: detail, Case: raw}}
		}
		return nil
	}
	var rp scnSeqReplay
	if err := json.Unmarshal(raw, &rp); err != nil || rp.Scn == nil {
		panic(fmt.Sprint("bad replay case ", err))
	}
	r, m := replayScnSeq(rp.Scn, rp.Answers, rp.Modes, false)
	sig, detail := sc.Judge(rp.Scn, r, m)
	if sig == "" {
		return nil
	}
	return []fw.Violation{{Sig: sig, Detail: detail, Case: raw}}
}

var (
	allKinds  = []scn.Kind{scn.KCall, scn.KCallCode, scn.KDelegateCall, scn.KStaticCall, scn.KCreate, scn.KCreate2}
	allTerms  = []scn.Term{scn.TStop, scn.TReturn, scn.TRevert, scn.TInvalid, scn.TUnderflow, scn.TOOG, scn.TSelfdestruct}
	fewTerms  = []scn.Term{scn.TStop, scn.TReturn, scn.TRevert, scn.TInvalid}
	allTgts   = []scn.Target{scn.TgChild, scn.TgPrecompile, scn.TgCodeless, scn.TgBadPrecompile, scn.TgAbsent}
	initTerms = []scn.Term{scn.TStop, scn.TReturn, scn.TRevert, scn.TInvalid, scn.TUnderflow, scn.TOOG, scn.TSelfdestruct, scn.TReturnEF, scn.TReturnBig}
	threeFork = []world.Fork{world.Byzantium, world.Berlin, world.Shanghai}
)

// chainFamily is the depth-3 family over a reduced alphabet (DESIGN.md §4.0): CALL / DELEGATECALL / STATICCALL
// chains with values {0,1} and terminators {STOP, REVERT, INVALID}.
func chainFamily(tier string, effects []scn.Effect, tune func(o *scnOpts)) scnFamily {
	o := &scnOpts{Forks: []world.Fork{world.Shanghai}, Answers: failAlphabet, BoundAll: true}
	if tier == "thorough" {
		o.Forks = threeFork
	}
	o.Gen = scn.GenOpts{MaxDepth: 3, Effects: effects, PreEffects: []scn.Effect{scn.ENone}, Terms: []scn.Term{scn.TStop, scn.TRevert, scn.TInvalid},
		Kinds: []scn.Kind{scn.KCall, scn.KDelegateCall, scn.KStaticCall}, Values: []int{0, 1}, Targets: []scn.Target{scn.TgChild}}
	if tune != nil {
		tune(o)
	}
	return scnFamily{o, 1, nil}
}

func anyFailed(s *scn.Scn, r *scn.Run, m *scn.MResult) bool { return len(m.Failed) > 0 }
func anyFired(s *scn.Scn, r *scn.Run, m *scn.MResult) bool  { return len(m.Firings) > 0 }
func anyNested(s *scn.Scn, r *scn.Run, m *scn.MResult) bool { return len(m.Nodes) > 1 }

func init() {
	// ------------------------------------------------------------ C05
	c05 := &scnCheck{ID: "C05", Judge: c05Judge, Nontrivial: anyFired,
		Opts: func(tier string) (*scnOpts, int, [][]bool) {
			o := &scnOpts{Forks: []world.Fork{world.Shanghai}, Answers: failAlphabet, NAspects: []int{1, 2}, TopValues: []int{0, 1}, TopInLens: []int{32, 0}}
			o.Gen = scn.GenOpts{MaxDepth: 2, Effects: []scn.Effect{scn.ENone, scn.ESstore}, PreEffects: []scn.Effect{scn.ENone}, Terms: []scn.Term{scn.TStop, scn.TRevert, scn.TInvalid, scn.TSelfdestruct},
				Kinds: allKinds, Values: []int{0, 1}, Targets: allTgts, InLens: []int{32, 0, 33}}
			if tier == "thorough" {
				o.Gen.InLens = []int{32, 0, 1, 4, 33}
			}
			bound := 1
			modes := [][]bool{{true}, {true, true}, {true, false}, {false, true}}
			if tier == "thorough" {
				o.Forks = scnForks
				o.Gen.MaxDepth, o.Gen.MaxFrames = 3, 3
				o.Gen.Terms = allTerms
				bound = 2
			}
			return o, bound, modes
		},
		More: func(tier string) []scnFamily {
			return []scnFamily{chainFamily(tier, []scn.Effect{scn.ENone}, func(o *scnOpts) { o.BoundAll = false })}
		}}
	register(&Check{ID: "C05", Level: "fault_enumeration",
		Technique: "bounded exhaustive enumeration of scenario call trees x which contracts have Aspects bound (all subsets) x 1-2 Aspects per join point x calldata lengths x values x join-point switch toggled between consecutive top-level calls x answer vectors (deviation-bounded), executed on the real EVM with a scripted Aspect runtime; observed Aspect executions compared with the firing sequence the scenario denotes",
		Rule:      "scenario trees (depth-bounded; all six call kinds; targets child frame / precompile / code-less account; calldata lengths {0,1,4,32,33}; values {0,1}) x every subset of contracts bound x {1,2} Aspects x invocation sequences {on},{on,on},{on,off},{off,on} on one EVM x answers {ok, out of gas, revert, other failure, provider failure, burn all} with <= k deviations. Oracle: the sequence of Aspect executions (join point, contract, aspect order, From/To/Data/Value/Index of the request, return data and error class for post) equals the model's; every pre execution lies after the frame's enter event and before the callee's first instruction with the frame's gas, every post execution after the last instruction and before the exit event; none fires for precompiles, code-less accounts, unbound contracts, CALLCODE/DELEGATECALL/STATICCALL/CREATE frames or with the switch off. non-trivial = distinct executions with at least one Aspect execution",
		Assumptions: []string{"'message call that runs code' is read as the CALL kind (EVM.Call); firings around other call kinds would be reported as unexpected"},
		Bounds:      func(t string) map[string]any { _, b, _ := c05.Opts(t); return map[string]any{"answer_deviation_bound": b} },
		Quick:       80 * time.Second, Thorough: 40 * time.Minute, Run: c05.run, Replay: c05.replay})

	// ------------------------------------------------------------ C07
	c07 := &scnCheck{ID: "C07", Judge: c07Judge, Nontrivial: anyNested,
		Opts: func(tier string) (*scnOpts, int, [][]bool) {
			o := &scnOpts{Forks: threeFork, Answers: failAlphabet, BoundAll: true, TopValues: []int{0, 2}}
			o.Gen = scn.GenOpts{MaxDepth: 2, Effects: []scn.Effect{scn.ENone, scn.ESstore, scn.ECallLeaf}, PreEffects: []scn.Effect{scn.ENone}, Terms: allTerms, Kinds: allKinds, Values: []int{0, 1, 2}, Targets: allTgts}
			bound := 1
			modes := [][]bool{{true}, {true, true, true}, {true, false, true}}
			if tier == "thorough" {
				o.Forks = scnForks
				o.Gen.MaxDepth, o.Gen.MaxFrames = 3, 4
				bound = 2
			}
			return o, bound, modes
		},
		More:    func(tier string) []scnFamily { return []scnFamily{chainFamily(tier, []scn.Effect{scn.ENone}, nil)} },
		Special: func(w *fw.W) { depthLimitSpecial(w, "C07") }}
	register(&Check{ID: "C07", Level: "model_checking",
		Technique: "bounded exhaustive enumeration of scenario call trees x failures at every position (intrinsic and injected at join points) x repeated top-level invocations on one EVM; the recorded call tree is inspected through its public API after the last invocation",
		Rule:      "scenario trees as in C04 (incl. insufficient-balance refusals, create collisions on repeated invocations, static faults, a second call attempt by a frame after its first one returned or failed) x invocation sequences of 1 and 3 top-level calls x answer vectors with <= k deviations. Oracle (public API): FindCall(i).Index == i for i < n and nil for n <= i < n+4 (n = attempts the scenario denotes); every non-top node has its issuing frame's node as Parent with a smaller index, is listed exactly once, children strictly increasing; ParentOf/ChildrenOf agree with the fields; Root() is node 0; Current() == nil. non-trivial = distinct executions with at least two nodes",
		Assumptions: []string{"the 1024-depth limit is covered by a dedicated recursion scenario, not by the grammar"},
		Bounds:      func(t string) map[string]any { _, b, _ := c07.Opts(t); return map[string]any{"answer_deviation_bound": b} },
		Quick:       80 * time.Second, Thorough: 40 * time.Minute, Run: c07.run, Replay: c07.replay})

	// ------------------------------------------------------------ C08
	c08 := &scnCheck{ID: "C08", Judge: c08Judge, Nontrivial: anyNested,
		Opts: func(tier string) (*scnOpts, int, [][]bool) {
			o := &scnOpts{Forks: threeFork, Answers: failAlphabet, BoundAll: true, TopValues: []int{0, 1}, JPModes: []bool{true, false}}
			o.Gen = scn.GenOpts{MaxDepth: 2, Effects: []scn.Effect{scn.ENone, scn.ESstore}, PreEffects: []scn.Effect{scn.ENone}, Terms: allTerms, InitTerms: initTerms, Kinds: allKinds, Values: []int{0, 1, 2}, Targets: allTgts,
				Reuse: []int{0, 1, 2}}
			bound := 1
			if tier == "thorough" {
				o.Forks = scnForks
				o.Gen.MaxDepth, o.Gen.MaxFrames = 3, 3
				o.Gen.InLens = []int{32, 0, 33}
				bound = 2
			}
			return o, bound, [][]bool{nil}
		},
		More: func(tier string) []scnFamily {
			f := chainFamily(tier, []scn.Effect{scn.ENone}, func(o *scnOpts) { o.Gen.Reuse = []int{0, 1} })
			f.Modes = [][]bool{{true}, {true, true}} // what the first invocation recorded must survive the frames of the second
			return []scnFamily{f}
		},
		Special: func(w *fw.W) { depthLimitSpecial(w, "C08"); wideValueSpecial(w, "C08") }}
	register(&Check{ID: "C08", Level: "model_checking",
		Technique: "bounded exhaustive enumeration of scenario call trees x memory-reuse patterns after each call x failure kinds x join points on/off, executed on the real EVM; every recorded call-tree node compared with the attempt the scenario denotes (caller, target, value, input) and with gas/outcome taken from the debug tracer's enter/exit events",
		Rule:      "scenario trees as in C04 x memory reuse {none, return area over the argument area, MSTORE over the arguments after the call} x join points on with Aspects bound everywhere / off x answers with <= k deviations; plus the wide-value family (amounts 2^k-1, 2^k, 2^k+5 for k = 64, 128, 192 through Call, Create, CALL, CREATE, CREATE2) and the depth-limit recursion. Oracle: one node per CALL/CREATE/CREATE2 attempt in program order (refused ones included, instruction faults excluded) under the frame that issued it; From/To/Value/input exactly as at the call; Gas == gas of the frame's enter event; RemainingGas == supplied - used of the exit event (all of it back for refusals, nothing for a collision); Err/Ret as handed back. non-trivial = distinct executions with nested attempts",
		Assumptions: []string{"leftover after a join-point failure other than out-of-gas is not judged (C06 does not determine it)"},
		Bounds:      func(t string) map[string]any { _, b, _ := c08.Opts(t); return map[string]any{"answer_deviation_bound": b} },
		Quick:       80 * time.Second, Thorough: 40 * time.Minute, Run: c08.run, Replay: c08.replay})

	// ------------------------------------------------------------ C10
	jEff := []scn.Effect{scn.ENone, scn.EJournal, scn.EJournalAA, scn.EJournalABA, scn.EJournalRef}
	c10 := &scnCheck{ID: "C10", Judge: c10Judge,
		Nontrivial: func(s *scn.Scn, r *scn.Run, m *scn.MResult) bool { return len(m.Journal) > 0 },
		Opts: func(tier string) (*scnOpts, int, [][]bool) {
			o := &scnOpts{Forks: []world.Fork{world.Byzantium, world.Shanghai}, Answers: failAlphabet, BoundAll: true, JPModes: []bool{false, true}}
			o.Gen = scn.GenOpts{MaxDepth: 2, Effects: []scn.Effect{scn.ENone, scn.EJournal, scn.EJournalRef}, Terms: []scn.Term{scn.TStop, scn.TRevert, scn.TInvalid}, Kinds: allKinds, Values: []int{0}, Targets: []scn.Target{scn.TgChild}}
			if tier == "thorough" {
				o.Gen.Values = []int{0, 2}
			}
			o.Forks = []world.Fork{world.Shanghai}
			o.Layouts = []bool{false, true}
			if tier == "thorough" {
				o.Gen.Effects = jEff
			}
			bound := 1
			modes := [][]bool{{true}, {true, true}}
			if tier == "thorough" {
				o.Forks = scnForks
				o.Gen.MaxDepth, o.Gen.MaxFrames = 3, 3
				o.Gen.Terms = allTerms
				bound = 2
			}
			return o, bound, modes
		},
		More: func(tier string) []scnFamily {
			eff := []scn.Effect{scn.ENone, scn.EJournalABA}
			if tier == "thorough" {
				eff = []scn.Effect{scn.ENone, scn.EJournalAA, scn.EJournalABA}
			}
			f := chainFamily(tier, eff, func(o *scnOpts) {
				o.Gen.PreEffects = []scn.Effect{scn.ENone, scn.EJournalAA}
				if tier == "thorough" {
					o.Gen.PreEffects = nil
					o.Layouts = []bool{false, true}
				}
				o.Gen.Values = []int{0, 2}
			})
			f.Modes = [][]bool{{true, true}}
			return []scnFamily{f}
		}}
	register(&Check{ID: "C10", Level: "model_checking",
		Technique: "bounded exhaustive enumeration of scenario call trees with journal groups at every effect position, under all call kinds and failing frames, executed on the real EVM; recorded per-variable change lists compared with the attribution the scenario denotes",
		Rule:      "scenario trees whose effects are journal groups {register+store+journal; journal twice (repeat); values a,b,a; a reference-typed variable holding 40-byte strings a,b,a} at the pre and post position of every frame x call kinds {CALL, CALLCODE, DELEGATECALL, STATICCALL, CREATE, CREATE2} x call value {0, more than the balance: the attempt is refused} x terminators incl. failing ones x join points off / on with failing answers x storage layout {every contract its own slots and variable names, all contracts the same slots and names}. Oracle: for every account and variable name the map call-index -> value list equals the model's (account = storage context of the executing frame: caller under DELEGATECALL/CALLCODE, new contract during creation; call index = innermost open CALL/CREATE node; immediate repeats collapsed; entries of failed frames kept), and no entry exists under any other account/variable. non-trivial = distinct executions that journaled at least one value",
		Bounds:    func(t string) map[string]any { _, b, _ := c10.Opts(t); return map[string]any{"answer_deviation_bound": b} },
		Quick:     100 * time.Second, Thorough: 40 * time.Minute, Run: c10.run, Replay: c10.replay})

	// ------------------------------------------------------------ C13
	c13 := &scnCheck{ID: "C13", Judge: c13Judge,
		Nontrivial: func(s *scn.Scn, r *scn.Run, m *scn.MResult) bool { return len(r.Transfers) > 1 },
		Opts: func(tier string) (*scnOpts, int, [][]bool) {
			o := &scnOpts{Forks: []world.Fork{world.Byzantium, world.Shanghai}, Answers: failAlphabet, BoundAll: true, TopValues: []int{0, 1, 2}}
			o.Gen = scn.GenOpts{MaxDepth: 2, Effects: []scn.Effect{scn.ENone}, Terms: []scn.Term{scn.TStop, scn.TRevert, scn.TInvalid, scn.TSelfdestruct}, Kinds: allKinds, Values: []int{0, 1, 2}, Targets: []scn.Target{scn.TgChild, scn.TgPrecompile, scn.TgCodeless, scn.TgSelf, scn.TgBadPrecompile, scn.TgAbsent}, LeafCalls: true}
			if tier == "thorough" {
				o.Gen.Terms, o.JPModes = allTerms, []bool{false, true}
			}
			bound := 1
			modes := [][]bool{{true}, {true, true}}
			if tier == "thorough" {
				o.Forks = scnForks
				o.Gen.MaxDepth, o.Gen.MaxFrames = 3, 3
				bound = 2
			}
			return o, bound, modes
		},
		More: func(tier string) []scnFamily {
			// frames that announce and journal state variables around the transfers: the balance list lives in the same
			// per-account structure as the key tree, so registrations before / after a transfer must leave it alone
			jo := &scnOpts{Forks: []world.Fork{world.Shanghai}, Answers: failAlphabet, BoundAll: true, TopValues: []int{0, 1}}
			jo.Gen = scn.GenOpts{MaxDepth: 2, Effects: []scn.Effect{scn.ENone, scn.EJournal, scn.EJournalRef}, Terms: []scn.Term{scn.TStop, scn.TRevert}, Kinds: []scn.Kind{scn.KCall, scn.KCreate}, Values: []int{0, 1}, Targets: []scn.Target{scn.TgChild}}
			return []scnFamily{chainFamily(tier, []scn.Effect{scn.ENone}, func(o *scnOpts) {
				o.Gen.Targets = []scn.Target{scn.TgChild, scn.TgSelf}
				o.Gen.LeafCalls = true
			}), {jo, 1, [][]bool{{true}, {true, true}}}}
		}}
	register(&Check{ID: "C13", Level: "model_checking",
		Technique: "bounded exhaustive enumeration of scenario call trees with value transfers (zero, one wei, whole-range), transfers to precompiles, code-less and newly created accounts, frames that later fail, repeated invocations; the recorded balance journal is compared with the balances the reference interpreter computes around every transfer and with what a wrapping transfer function saw on the real state",
		Rule:      "scenario trees x call kinds x values {0, 1, more than balance} x targets {child, precompile, code-less} x 7 terminators x top-level value {0, 1, 5000} x 1-2 invocations x Aspects bound everywhere with failing answers; plus a family whose frames announce and journal state variables around the transfers. Oracle: per account and call index the list [sender before, recipient before, sender after, recipient after] restricted to that account with immediate repeats collapsed, for every CALL/CREATE frame entered (zero-value included), equals Balance(addr).Changes(); no other entry exists. non-trivial = distinct executions with at least two transfers",
		Bounds:    func(t string) map[string]any { _, b, _ := c13.Opts(t); return map[string]any{"answer_deviation_bound": b} },
		Quick:     80 * time.Second, Thorough: 40 * time.Minute, Run: c13.run, Replay: c13.replay})
}

// depthLimitSpecial: self-recursion down to the 1024 call-depth limit (outside the scenario grammar). The program
// CALLs its own address with all available gas until the EVM refuses the call; the expected attempts are counted
// from the debug tracer (CALL steps that were executed), the recorded call tree must be the chain 0 <- 1 <- ... with
// the refused attempt recorded last, with all of its gas handed back.
func depthLimitSpecial(w *fw.W, prop string) {
	if !w.MineKey(fw.Hash("depth-limit-special")) {
		return
	}
	for _, f := range []world.Fork{world.Byzantium, world.Shanghai} {
		sig, detail := depthLimitRun(f)
		w.Evals++
		w.Extra("special_depth_limit", 1)
		h := fw.Hash("depth-limit", f.String())
		w.State(h)
		w.Nontrivial(h)
		if sig != "" {
			w.Violate("depth_limit:"+sig, detail, map[string]any{"special": "depth_limit", "fork": f})
		}
	}
}
