package checks

import (
	"encoding/json"
	"fmt"
	"time"

	"verif/fw"
	"verif/world"
)

// C01 — execution equals go-ethereum v1.12.0 for every standard program (DESIGN.md §4 C01).

type aConfig struct {
	Tracer bool
	JPOff  bool
}

var aConfigs = []aConfig{{false, false}, {true, false}, {false, true}, {true, true}}

func (a aConfig) String() string { return fmt.Sprintf("tracer=%v,jpoff=%v", a.Tracer, a.JPOff) }

func obsDiff(r, a *world.Obs) string {
	switch {
	case a.Panic != "":
		return "panic"
	case string(r.Ret) != string(a.Ret):
		return "ret"
	case r.Class != a.Class:
		return "class"
	case r.Gas != a.Gas:
		return "gas"
	case r.Created != a.Created:
		return "created"
	case r.Refund != a.Refund:
		return "refund"
	case r.State != a.State:
		return "state"
	case r.Key() != a.Key():
		return "logs_or_selfdestructs"
	}
	return ""
}

// c01Run compares the reference with /repo in its four configurations on one case.
func c01Run(s *world.Session, cs *world.Case) (vs []fw.Violation, r *world.Obs) {
	r = s.R(cs, world.ROpts{}).Invoke(cs)
	if r.Panic != "" {
		// the reference itself crashed: out of the comparable domain
		return nil, r
	}
	for _, cfg := range aConfigs {
		opts := world.AOpts{JPOff: cfg.JPOff}
		if cfg.Tracer {
			opts.Tracer = &world.ACount{}
		}
		a := s.A(cs, opts).Invoke(cs)
		if d := obsDiff(r, a); d != "" {
			vs = append(vs, fw.Violation{Sig: "diff:" + d, Detail: fmt.Sprintf("config %s\nreference: %s err=%q\n/repo:     %s err=%q", cfg, r.Key(), r.Err, a.Key(), a.Err), Case: mustJSON(cs)})
			break
		}
	}
	return vs, r
}

func confirm(run func() []fw.Violation, first []fw.Violation) (ok bool) {
	// a violation is re-executed 4 more times and must reproduce identically
	for i := 0; i < 4; i++ {
		again := run()
		if len(again) != len(first) {
			return false
		}
		for j := range again {
			if again[j].Sig != first[j].Sig || again[j].Detail != first[j].Detail {
				return false
			}
		}
	}
	return true
}

func init() {
	register(&Check{
		ID:        "C01",
		Level:     "model_checking",
		Technique: "bounded exhaustive enumeration of programs/operands/entry points executed on the real interpreter, compared per execution with the upstream go-ethereum v1.12.0 interpreter as reference model",
		Rule: "cases = instruction matrix (every standard opcode x operand tuples with <=k non-default operands from boundary alphabets x pre-state shapes) + all macro sequences of length <=L + every byte string of length <=2 (3 over class representatives in thorough) as code + short sequences through all six entry points + scenario call trees (mutually calling contract sets: six call kinds x values x targets child/precompile/code-less/self x 7 terminators with SSTORE/LOG effects, Byzantium..Shanghai) + SSTORE sequences (<=3 stores to one slot over 4 values, original zero / non-zero) + self-destruct sequences (<=3 calls into two self-destructing contracts x 5x5 beneficiaries x value) + creation sequences (<=2, thorough 3, over CREATE / CREATE2 with two salts x 5 init codes) + calls of every kind into precompiles 1-9 with overlapping / coinciding / disjoint argument and return windows followed by a read of the return-data buffer + each extra EIP singly on the fork before its activation, on the 12 forks Frontier..Shanghai; each compared in 4 /repo configurations (debug tracer on/off x join points on-with-nothing-bound/off). evaluations = reference/implementation pairs; states = distinct reference observations; non-trivial = distinct programs whose reference run consumed gas",
		Assumptions: []string{
			"reference model is go-ethereum v1.12.0 core/vm from the module cache, driven on an identically built state.StateDB",
			"operand values outside the boundary alphabets and programs longer than the bound are not covered",
			"programs executing journal opcodes 0xe0-0xe7 are outside 'standard' and skipped (covered by C12/C03)",
		},
		Bounds: func(t string) map[string]any {
			o := stdOptsFor(t)
			return map[string]any{"im_operand_deviation_bound": o.IMBound, "seq_len": o.SeqL, "bytes2": o.Bytes2, "bytes3_reps": o.Bytes3, "entry_seq_len": o.EntrySeqL, "forks": 12, "configs": 4, "scenario_depth": map[bool]int{false: 2, true: 3}[o.ScnDeep]}
		},
		Quick:    100 * time.Second,
		Thorough: 40 * time.Minute,
		Run: func(w *fw.W) {
			o := stdOptsFor(w.Tier)
			sess := stdSession()
			forEachStdCase(w, o, func(cs *world.Case, family string) {
				sess := sess
				if family == "SCN" || family == "SSTORESEQ" || family == "SDSEQ" || family == "CREATESEQ" {
					sess = world.NewSession(cs.Accounts)
				}
				vs, r := c01Run(sess, cs)
				w.Evals += int64(len(aConfigs))
				w.Transitions += int64(len(aConfigs))
				w.Extra("cases_"+family, 1)
				k := r.Key()
				w.State(fw.Hash(k))
				if r.Gas < cs.Gas {
					w.Nontrivial(fw.HashBytes(cs.Accounts[1].Code) ^ fw.Hash(cs.Entry, cs.ForkName))
				}
				if w.Evals%20011 < 4 {
					w.Sample(map[string]any{"note": cs.Note, "fork": cs.ForkName, "entry": cs.Entry, "code": fmt.Sprintf("%x", []byte(cs.Accounts[1].Code)), "ref_obs": k})
				}
				if len(vs) > 0 {
					if !confirm(func() []fw.Violation { v, _ := c01Run(sess, cs); return v }, vs) {
						w.Notes = append(w.Notes, "UNREPRODUCED: C01 violation did not reproduce: "+cs.Note)
						return
					}
					for _, v := range vs {
						w.Violate(v.Sig, v.Detail, cs)
					}
				}
			})
		},
		Replay: func(raw json.RawMessage) []fw.Violation {
			var cs world.Case
			if err := json.Unmarshal(raw, &cs); err != nil {
				panic(err)
			}
			vs, _ := c01Run(world.NewSession(cs.Accounts), &cs)
			return vs
		},
	})
}
