package checks

import (
	"encoding/json"
	"fmt"
	"os"

	"verif/fw"
	"verif/mc"
	"verif/scn"
	"verif/world"
)

// Real-runtime conformance (auxiliary to C04-C08): the same scenario executions, judged by the same oracles, but
// with Aspects running on the real aspect-runtime (wasmtime) instead of the scripted stub. Tiny hand-assembled WASM
// modules provide the answers the real runtime can give without host APIs: success after burning gas, out of
// gas, trap after burning gas; the provider failure is injected at the provider as in the stub runs. This binds the
// stub's answer table (DESIGN.md §2.3) to the implementation it replaces.

type realViolation struct {
	Sig    string `json:"sig"`
	Detail string `json:"detail"`
	Case   any    `json:"case"`
}

var realAnswers = []scn.Answer{{Kind: 0}, {Kind: 1}, {Kind: 3}, {Kind: 4}}

// RealConformance runs shard idx of n and prints one JSON line per violation plus a summary line.
func RealConformance(idx, n int, thorough bool) {
	if !world.RealRunner {
		fmt.Println(`{"error":"binary was not built with the realrunner tag"}`)
		os.Exit(2)
	}
	o := &scnOpts{Forks: []world.Fork{world.Shanghai}, Answers: realAnswers, BoundAll: true, TopValues: []int{0, 1}}
	o.Gen = scn.GenOpts{MaxDepth: 2, Effects: []scn.Effect{scn.ENone, scn.ESstore}, PreEffects: []scn.Effect{scn.ENone},
		Terms: []scn.Term{scn.TStop, scn.TRevert}, Kinds: []scn.Kind{scn.KCall}, Values: []int{0, 1}, Targets: []scn.Target{scn.TgChild}}
	bound := 1
	if thorough {
		bound = 2
		o.Gen.Terms = []scn.Term{scn.TStop, scn.TRevert, scn.TInvalid}
		o.Gen.Kinds, o.Gen.Targets = []scn.Kind{scn.KCall, scn.KStaticCall}, []scn.Target{scn.TgChild, scn.TgCodeless}
	}
	w := fw.NewW("real", idx, n, "quick", 0)
	execs, firings := 0, 0
	judges := []struct {
		Name string
		J    func(s *scn.Scn, r *scn.Run, m *scn.MResult) (string, string)
	}{{"C04", c04Judge}, {"C05", c05Judge}, {"C06", c06Judge}, {"C07", c07Judge}, {"C08", c08Judge}, {"C13", c13Judge}}
	enc := json.NewEncoder(os.Stdout)
	mc.Explore(bound, func(c *mc.Ctx) {
		s := genScn(c, o)
		if !w.MineKey(fw.Hash(s.String())) {
			return
		}
		// 30M gas: enough for every scenario, little enough for the spinning module (needs ~140M) to run out
		r := scn.Exec(s, scn.RunOpts{TopGas: 30_000_000, Answer: func(k int, pre bool) scn.Answer { return o.Answers[c.Deviate(len(o.Answers))] }})
		m := modelOf(s, r)
		execs++
		firings += len(r.Firings)
		// the real runtime must honour the contract the stub assumes
		for i, f := range r.Firings {
			if f.Err == "provider" {
				continue
			}
			switch {
			case f.GasOut > f.GasIn:
				enc.Encode(realViolation{"real_runtime:gas_created", fmt.Sprintf("Aspect execution %d was given %d gas and reports %d left", i, f.GasIn, f.GasOut), s.String()})
			case f.Answer.Kind == 0 && f.RealErr != "":
				enc.Encode(realViolation{"real_runtime:ok_module_failed", fmt.Sprintf("execution %d: %s", i, f.RealErr), s.String()})
			case f.Answer.Kind == 1 && (f.RealErr != "out of gas" || f.GasOut != 0):
				enc.Encode(realViolation{"real_runtime:oog_shape", fmt.Sprintf("execution %d of the spinning module ended with err=%q gas left=%d; the stub answers err=\"out of gas\", 0 left", i, f.RealErr, f.GasOut), s.String()})
			case f.Answer.Kind == 3 && (f.RealErr == "" || f.RealErr == "out of gas"):
				enc.Encode(realViolation{"real_runtime:trap_shape", fmt.Sprintf("execution %d of the trapping module ended with err=%q", i, f.RealErr), s.String()})
			}
		}
		for _, j := range judges {
			if sig, detail := j.J(s, r, m); sig != "" && sig != "harness" {
				enc.Encode(realViolation{"real_runtime:" + j.Name + ":" + sig, detail, map[string]any{"scn": s, "answers": r.Answers}})
			}
		}
	}, nil)
	enc.Encode(map[string]any{"summary": true, "executions": execs, "aspect_executions": firings})
}
