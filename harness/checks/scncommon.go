package checks

import (
	"bytes"
	"fmt"
	"math/big"
	"sort"
	"strings"

	"github.com/ethereum/go-ethereum/common"
	"verif/mc"
	"verif/scn"
	"verif/world"
)

// Shared machinery of the scenario-based checks (C04 C05 C06 C07 C08 C10 C13).

var scnForks = []world.Fork{world.Byzantium, world.Istanbul, world.Berlin, world.London, world.Shanghai}

// answerAlphabet: index 0 is the default answer (Aspect succeeds and burns nothing).
var answerAlphabet = []scn.Answer{
	{Kind: 0}, {Kind: 0, Burn: 1}, {Kind: 0, Burn: 100}, {Kind: 0, Burn: scn.BurnAll},
	{Kind: 1}, {Kind: 2}, {Kind: 3}, {Kind: 3, Burn: 100}, {Kind: 4},
}

// failAlphabet: default + one answer per failure kind (used where burn amounts do not matter).
var failAlphabet = []scn.Answer{{Kind: 0}, {Kind: 1}, {Kind: 2}, {Kind: 3}, {Kind: 4}, {Kind: 0, Burn: scn.BurnAll}}

type scnOpts struct {
	Gen       scn.GenOpts
	Forks     []world.Fork
	Answers   []scn.Answer
	BoundAll  bool // every contract has Aspects bound (otherwise every subset is enumerated)
	NAspects  []int
	TopValues []int
	TopInLens []int
	JPModes   []bool
	Layouts   []bool // false: every contract has slots and journal names of its own; true: all share one layout
}

// genScn resolves a scenario through the explorer.
func genScn(c *mc.Ctx, o *scnOpts) *scn.Scn {
	s := &scn.Scn{NAspects: 1, JPOn: true, TopInLen: 32}
	next := 0
	s.Root = scn.GenFrame(c, &o.Gen, 1, &next)
	s.Frames = next
	// configuration choices come after the structure, so that a truncated exploration has seen every configuration
	// of the structures it reached
	if len(o.TopValues) > 1 {
		s.TopValue = o.TopValues[c.Choose(len(o.TopValues))]
	}
	if len(o.TopInLens) > 1 {
		s.TopInLen = o.TopInLens[c.Choose(len(o.TopInLens))]
	}
	s.Fork = o.Forks[c.Choose(len(o.Forks))]
	if len(o.JPModes) > 1 {
		s.JPOn = o.JPModes[c.Choose(len(o.JPModes))]
	}
	if o.BoundAll {
		s.Bound = ^uint32(0)
	} else {
		s.Bound = uint32(c.Choose(1 << uint(next)))
	}
	if len(o.NAspects) > 1 {
		s.NAspects = o.NAspects[c.Choose(len(o.NAspects))]
	}
	if len(o.Layouts) > 1 {
		s.Shared = o.Layouts[c.Choose(len(o.Layouts))]
	}
	return s
}

// execScn runs the scenario for real with answers drawn from the explorer (deviation-bounded) and then the model
// with the same answers.
func execScn(c *mc.Ctx, s *scn.Scn, answers []scn.Answer, full bool) (*scn.Run, *scn.MResult) {
	r := scn.Exec(s, scn.RunOpts{Full: full, Answer: func(k int, pre bool) scn.Answer { return answers[c.Deviate(len(answers))] }})
	return r, scn.Model(s, r.Answers)
}

// replayScn runs the scenario with a fixed answer list.
func replayScn(s *scn.Scn, answers []scn.Answer, full bool) (*scn.Run, *scn.MResult) {
	r := scn.Exec(s, scn.RunOpts{Full: full, Answer: func(k int, pre bool) scn.Answer {
		if k < len(answers) {
			return answers[k]
		}
		return scn.Answer{}
	}})
	return r, scn.Model(s, r.Answers)
}

func u64Hash(v uint64) common.Hash { return common.BigToHash(new(big.Int).SetUint64(v)) }

// compareWorld compares the real post-state with the model's. Returns (signature suffix, detail) or "".
func compareWorld(s *scn.Scn, r *scn.Run, m *scn.MResult) (string, string) {
	db := r.Env.DB
	var diffs []string
	kind := ""
	note := func(k, f string, a ...any) {
		if kind == "" {
			kind = k
		}
		diffs = append(diffs, fmt.Sprintf(f, a...))
	}
	for _, a := range m.Addresses(s) {
		for _, slot := range s.Slots() {
			if m.Unjudged[a][slot] {
				continue
			}
			got := db.StateDB.GetState(a, u64Hash(slot))
			want := u64Hash(m.World.Storage[a][slot])
			if m.World.Suicided[a] {
				continue
			}
			if got != want {
				k := "storage"
				if slot >= 0x2000 && slot < 0x3000 {
					k = "flag"
				} else if slot >= 0x3000 {
					k = "returndatasize"
				}
				note(k, "%x slot %#x: real %x, expected %x", a[16:], slot, trimHash(got), trimHash(want))
			}
		}
		if got, want := db.StateDB.GetBalance(a), m.World.Balance[a]; want != nil && got.Cmp(want) != 0 || want == nil && got.Sign() != 0 {
			note("balance", "%x balance: real %s, expected %v", a[16:], got, want)
		}
		if a != scn.Precompile {
			if got, want := db.StateDB.GetNonce(a), m.World.Nonce[a]; got != want {
				note("nonce", "%x nonce: real %d, expected %d", a[16:], got, want)
			}
			if got, want := db.StateDB.GetCode(a), m.World.Code[a]; !bytes.Equal(got, want) {
				note("code", "%x code: real %d bytes, expected %d bytes", a[16:], len(got), len(want))
			}
		}
		if got, want := db.StateDB.HasSuicided(a), m.World.Suicided[a]; got != want {
			note("selfdestruct", "%x self-destructed: real %v, expected %v", a[16:], got, want)
		}
	}
	// which accounts are left once the transaction is finalised (empty accounts whose dirtiness survived and
	// self-destructed ones go): read off the counting StateDB's journal-aware dirty log, the state itself is not finalised
	for _, a := range m.Addresses(s) {
		if got, want := db.ExistsFinalised(a), m.World.ExistsFinalised(a); got != want {
			note("existence", "%x exists after finalisation: real %v, expected %v", a[16:], got, want)
		}
	}
	logs := db.Logs()
	var gl []string
	for _, l := range logs {
		t := uint64(0)
		if len(l.Topics) > 0 {
			t = l.Topics[0].Big().Uint64()
		}
		gl = append(gl, fmt.Sprintf("%x:%#x", l.Address[16:], t))
	}
	var wl []string
	for _, l := range m.World.Logs {
		wl = append(wl, fmt.Sprintf("%x:%#x", l.Addr[16:], l.Topic))
	}
	if strings.Join(gl, ",") != strings.Join(wl, ",") {
		note("logs", "logs: real [%s], expected [%s]", strings.Join(gl, ","), strings.Join(wl, ","))
	}
	if (r.Err == nil) != m.TopOK {
		note("top_result", "top-level call: real err=%v, expected ok=%v", r.Err, m.TopOK)
	}
	if kind == "" {
		return "", ""
	}
	sort.Strings(diffs[1:])
	if len(diffs) > 8 {
		diffs = diffs[:8]
	}
	return kind, strings.Join(diffs, "\n")
}

func trimHash(h common.Hash) []byte {
	b := h.Bytes()
	for len(b) > 1 && b[0] == 0 {
		b = b[1:]
	}
	return b
}

// scnReplay is the replay-file form of a scenario case.
type scnReplay struct {
	Scn     *scn.Scn     `json:"scn"`
	Answers []scn.Answer `json:"answers"`
}

func describeAnswers(as []scn.Answer) string {
	var out []string
	for i, a := range as {
		if a.Kind != 0 || a.Burn != 0 {
			k := []string{"ok", "oog", "revert", "fail", "provider"}[a.Kind]
			b := ""
			if a.Burn == scn.BurnAll {
				b = " burn=all"
			} else if a.Burn != 0 {
				b = fmt.Sprintf(" burn=%d", a.Burn)
			}
			out = append(out, fmt.Sprintf("#%d:%s%s", i, k, b))
		}
	}
	return "[" + strings.Join(out, " ") + "]"
}
