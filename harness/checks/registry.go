// Package checks holds one file per property: the nondeterministic harness bodies, oracles and replay functions.
package checks

import (
	"encoding/json"
	"time"

	"verif/fw"
)

type Check struct {
	ID          string
	Level       string // evidence "level"
	Technique   string
	Rule        string // how cases are enumerated and what counts as non-trivial
	Assumptions []string
	Bounds      func(tier string) map[string]any
	Run         func(w *fw.W)
	// Replay re-runs one concrete case (from a replay file) without the explorer.
	Replay func(raw json.RawMessage) []fw.Violation
	// CrashAware: a worker death is attributed to the case in its progress file and the worker is restarted.
	CrashAware bool
	CrashSig   func(desc string) (sig string, c json.RawMessage)
	Quick      time.Duration // internal deadline per tier
	Thorough   time.Duration
	Workers    int // 0 = all cores
	Race       bool
	MemLimitKB int64 // ulimit -v for workers (0 = none)
}

var Registry = map[string]*Check{}

func register(c *Check) { Registry[c.ID] = c }

func mustJSON(v any) json.RawMessage {
	b, err := json.Marshal(v)
	if err != nil {
		panic(err)
	}
	return b
}
