package checks

import (
	"fmt"

	"github.com/ethereum/go-ethereum/common"
	"github.com/holiman/uint256"
	"verif/asm"
	"verif/fw"
	"verif/gen"
	"verif/mc"
	"verif/scn"
	"verif/world"
)

// stdFamilies enumerates the standard-program case languages of DESIGN.md §4.0 (IM, SEQ-L, BYTES-n, ENTRY,
// EIPS) and hands every case this worker owns to fn. Returns false if the deadline cut the enumeration short.
type stdOpts struct {
	IMBound   int  // operand deviation bound
	FullShape bool // full shape alphabet
	MinShape  bool // only {plain, static} shapes
	SeqL      int
	Bytes2    bool
	Bytes3    bool
	EntrySeqL int
	EIPs      bool
	Forks     []world.Fork
	Gas       uint64
	SstoreSeq bool   // sequences of stores to one slot
	Scn       bool   // scenario call trees
	ScnDeep   bool   // depth 3 (max 3 frames)
	ScnLite   bool   // reduced scenario alphabet (quick tiers of the trace-comparing checks)
	ScnGas    uint64 // gas of the scenario's top-level call
}

func stdOptsFor(tier string) stdOpts {
	o := stdOpts{IMBound: 2, SeqL: 3, Bytes2: true, EntrySeqL: 1, EIPs: true, Forks: world.StandardForks(), Gas: 200000, Scn: true, ScnGas: scn.TopGas, SstoreSeq: true}
	if tier == "thorough" {
		o.ScnDeep = true
		o.IMBound = 3
		o.FullShape = true
		o.SeqL = 4
		o.Bytes3 = true
		o.EntrySeqL = 2
	}
	return o
}

var extraEIPs = []struct {
	EIP  int
	Fork world.Fork
}{{1344, world.Petersburg}, {1884, world.Petersburg}, {2200, world.Petersburg}, {2929, world.Istanbul}, {3198, world.Berlin}, {3529, world.Berlin}, {3855, world.Merge}, {3860, world.Merge}}

func forEachStdCase(w *fw.W, o stdOpts, fn func(cs *world.Case, family string)) bool {
	specs := gen.StdOps()
	shapes := gen.Shapes(o.FullShape)
	if o.MinShape {
		shapes = []gen.Shape{{}, {Static: true}, {MemWords: 3, RData: true}}
	}
	// the small hand-shaped families come first, so that a run cut by its deadline has covered them
	// SSTORESEQ: every sequence of up to 3 stores to one slot over {0, original, two other values} (net-metering
	// state machine: original zero / non-zero, dirty / clean, reset to original, cleared)
	if o.SstoreSeq {
		vals := []uint64{0, 0x11, 0x22, 0x33}
		for _, f := range o.Forks {
			for _, origIx := range []int{0, 1} {
				f, origIx := f, origIx
				gen.ForEachSeq(len(vals), 3, func(seq []int) {
					if len(seq) == 0 || !w.Mine() || w.Expired() {
						return
					}
					p := asm.New()
					for _, v := range seq {
						p.Push(vals[v]).Push(9).Op(asm.SSTORE)
					}
					p.Push(9).Op(asm.SLOAD).Push(0).Op(asm.MSTORE).Push(32).Push(0).Op(asm.RETURN)
					cs := gen.StdCase(f, p.Bytes(), "call", o.Gas)
					if origIx == 1 {
						cs.Accounts[1].Storage[common.HexToHash("0x9")] = common.HexToHash("0x11")
					}
					cs.Note = fmt.Sprintf("SSTORESEQ orig=%d seq=%v", origIx, seq)
					fn(cs, "SSTORESEQ")
				})
			}
		}
	}
	// SDSEQ: every sequence of up to 3 calls into two self-destructing contracts x every pair of beneficiaries
	// {itself, the other one, the caller, an absent account, the origin} x call value {0,1}: repeated destruction,
	// destruction into an already destroyed account, re-funding of a destroyed account (refund counter, balances,
	// account-creation surcharge per fork)
	if o.SstoreSeq {
		sd := [2]common.Address{world.ContractAddr(60), world.ContractAddr(61)}
		benef := func(self int, k int) common.Address {
			switch k {
			case 0:
				return sd[self]
			case 1:
				return sd[1-self]
			case 2:
				return gen.T
			case 3:
				return gen.Absent
			}
			return world.Origin
		}
		for _, f := range o.Forks {
			for b0 := 0; b0 < 5; b0++ {
				for b1 := 0; b1 < 5; b1++ {
					for _, val := range []uint64{0, 1} {
						f, b0, b1, val := f, b0, b1, val
						gen.ForEachSeq(2, 3, func(seq []int) {
							if len(seq) == 0 || !w.Mine() || w.Expired() {
								return
							}
							p := asm.New()
							for _, t := range seq {
								p.Push(0).Push(0).Push(0).Push(0).Push(val).PushAddr(sd[t]).Push(70000).Op(asm.CALL, asm.POP)
							}
							p.Op(asm.STOP)
							cs := gen.StdCase(f, p.Bytes(), "call", 400000)
							cs.Accounts = append(cs.Accounts,
								world.Account{Addr: sd[0], Balance: world.Big(10), Nonce: 1, Code: asm.New().PushAddr(benef(0, b0)).Op(asm.SELFDESTRUCT).Bytes()},
								world.Account{Addr: sd[1], Balance: world.Big(20), Nonce: 1, Code: asm.New().PushAddr(benef(1, b1)).Op(asm.SELFDESTRUCT).Bytes()})
							cs.Note = fmt.Sprintf("SDSEQ beneficiaries=(%d,%d) value=%d calls=%v", b0, b1, val, seq)
							fn(cs, "SDSEQ")
						})
					}
				}
			}
		}
	}
	// RDALIAS: a call of each kind into each precompile with argument and return windows that overlap, coincide or are
	// disjoint, optionally followed by a store into the argument window, then the return-data buffer is copied out:
	// what a precompile hands back must be a value of its own, not a view of the caller's memory
	if o.SstoreSeq {
		type win struct{ inOff, inLen, outOff, outLen uint64 }
		wins := []win{{0, 32, 1, 32}, {0, 32, 0, 32}, {0, 64, 32, 32}, {0, 32, 64, 32}, {0, 0, 0, 32}}
		for _, f := range o.Forks {
			if f < world.Byzantium {
				continue
			}
			for pcAddr := byte(1); pcAddr <= 9; pcAddr++ {
				for _, op := range []byte{asm.CALL, asm.CALLCODE, asm.DELEGATECALL, asm.STATICCALL} {
					for wi, wn := range wins {
						for _, late := range []bool{false, true} {
							if !w.Mine() || w.Expired() {
								continue
							}
							p := asm.New().Push32(gen.Pattern).Push(0).Op(asm.MSTORE)
							p.Push32(common.HexToHash("0xf1f2f3f4f5f6f7f8f9fafbfcfdfeff00f1f2f3f4f5f6f7f8f9fafbfcfdfeff01")).Push(32).Op(asm.MSTORE)
							p.Push(wn.outLen).Push(wn.outOff).Push(wn.inLen).Push(wn.inOff)
							if op == asm.CALL || op == asm.CALLCODE {
								p.Push(0)
							}
							p.PushAddr(common.BytesToAddress([]byte{pcAddr})).Push(150000).Op(op, asm.POP)
							if late {
								p.Push32(common.HexToHash("0xe0e0e0e0e0e0e0e0e0e0e0e0e0e0e0e0e0e0e0e0e0e0e0e0e0e0e0e0e0e0e0e0")).Push(0).Op(asm.MSTORE)
							}
							p.Op(asm.RETURNDATASIZE).Push(0).Push(0x100).Op(asm.RETURNDATACOPY)
							p.Push(96).Push(0x100).Op(asm.RETURN)
							cs := gen.StdCase(f, p.Bytes(), "call", 400000)
							cs.Note = fmt.Sprintf("RDALIAS precompile=%d kind=%#x windows=%d store-afterwards=%v", pcAddr, op, wi, late)
							fn(cs, "RDALIAS")
						}
					}
				}
			}
		}
	}
	// CREATESEQ: every sequence of up to 2 (thorough: 3) creation instructions over {CREATE, CREATE2 with salt 1 or 2} x
	// init code {empty, STOP, returns one byte of code, REVERT, SELFDESTRUCT}: address derivation, nonce bumps,
	// address collisions with accounts that have a nonce but no code / code / nothing left, re-creation after a failure
	if o.SstoreSeq {
		inits := [][]byte{{}, {asm.STOP}, asm.New().Push(1).Push(0).Op(asm.RETURN).Bytes(), asm.New().Push(0).Push(0).Op(asm.REVERT).Bytes(),
			asm.New().PushAddr(world.Origin).Op(asm.SELFDESTRUCT).Bytes()}
		type cr struct {
			salt int // 0: CREATE
			init int
		}
		var alpha []cr
		for s := 0; s <= 2; s++ {
			for i := range inits {
				alpha = append(alpha, cr{s, i})
			}
		}
		L := 2
		if o.FullShape {
			L = 3
		}
		for _, f := range o.Forks {
			f := f
			gen.ForEachSeq(len(alpha), L, func(seq []int) {
				if len(seq) == 0 || !w.Mine() || w.Expired() {
					return
				}
				p := asm.New()
				note := ""
				for k, ix := range seq {
					c := alpha[ix]
					var word common.Hash
					copy(word[:], inits[c.init])
					p.Push32(word).Push(0).Op(asm.MSTORE)
					if c.salt != 0 {
						p.Push(uint64(c.salt))
					}
					p.Push(uint64(len(inits[c.init]))).Push(0).Push(0)
					if c.salt != 0 {
						p.Op(asm.CREATE2)
						note += fmt.Sprintf(" CREATE2(salt=%d,init=%d)", c.salt, c.init)
					} else {
						p.Op(asm.CREATE)
						note += fmt.Sprintf(" CREATE(init=%d)", c.init)
					}
					p.Push(uint64(0x20 + k)).Op(asm.SSTORE)
				}
				p.Op(asm.STOP)
				cs := gen.StdCase(f, p.Bytes(), "call", 600000)
				cs.Note = "CREATESEQ" + note
				fn(cs, "CREATESEQ")
			})
		}
	}
	// IM
	for _, spec := range specs {
		for _, sh := range shapes {
			for _, f := range o.Forks {
				if w.Expired() {
					return false
				}
				spec, sh, f := spec, sh, f
				gen.ExploreOperands(spec, o.IMBound, func(ops []*uint256.Int, choice []int) {
					if !w.Mine() || w.Truncated {
						return
					}
					code := gen.BuildIM(f, spec, sh, ops)
					entry := "call"
					if sh.Static {
						entry = "staticcall"
					}
					cs := gen.StdCase(f, code, entry, o.Gas)
					cs.Note = fmt.Sprintf("IM op=%#x shape=%+v operands=%v", spec.Op, sh, choice)
					fn(cs, "IM")
				})
			}
		}
	}
	// SEQ
	alpha := gen.SeqAlphabet()
	for l := 0; l <= o.SeqL; l++ {
		for _, f := range o.Forks {
			f := f
			ok := true
			gen.ForEachSeqLen(len(alpha), l, func(seq []int) {
				if !ok || !w.Mine() {
					return
				}
				if w.Expired() {
					ok = false
					return
				}
				code := gen.BuildSeq(f, alpha, seq, o.SeqL)
				cs := gen.StdCase(f, code, "call", o.Gas)
				cs.Note = "SEQ " + seqName(alpha, seq)
				fn(cs, "SEQ")
				// the same program inside a static frame
				cs = gen.StdCase(f, code, "staticcall", o.Gas)
				cs.Note = "SEQ static " + seqName(alpha, seq)
				fn(cs, "SEQ")
			})
			if !ok {
				return false
			}
		}
	}
	// ENTRY: short sequences through all six entry points
	entries := []string{"call", "callcode", "delegatecall", "staticcall", "create", "create2"}
	for _, f := range o.Forks {
		f := f
		ok := true
		gen.ForEachSeq(len(alpha), o.EntrySeqL, func(seq []int) {
			for _, e := range entries {
				for _, val := range []uint64{0, 1} {
					if (e == "delegatecall" || e == "staticcall") && val != 0 {
						continue
					}
					if !ok || !w.Mine() {
						continue
					}
					if w.Expired() {
						ok = false
						return
					}
					code := gen.BuildSeq(f, alpha, seq, o.EntrySeqL)
					cs := gen.StdCase(f, code, e, o.Gas)
					if e == "create" || e == "create2" {
						cs.Input = code
						cs.Salt = 7
					}
					if val != 0 {
						cs.Value = world.Big(val)
					}
					cs.Note = "ENTRY " + e + " " + seqName(alpha, seq)
					fn(cs, "ENTRY")
					if e == "call" || e == "callcode" {
						// sender and recipient are the same account (a transfer to oneself: both sides of every
						// balance bookkeeping alias)
						self := *cs
						self.From = gen.T
						self.Note = "ENTRY-SELF " + e + " " + seqName(alpha, seq)
						fn(&self, "ENTRY")
					}
				}
			}
		})
		if !ok {
			return false
		}
	}
	// BYTES
	if o.Bytes2 {
		for _, f := range o.Forks {
			for n := 0; n < 65536+256+1; n++ {
				if !w.Mine() {
					continue
				}
				if w.Expired() {
					return false
				}
				var raw []byte
				switch {
				case n < 65536:
					raw = []byte{byte(n >> 8), byte(n)}
				case n < 65536+256:
					raw = []byte{byte(n)}
				}
				for _, seeded := range []bool{false, true} {
					code := gen.BuildBytes(raw, seeded)
					if gen.HasArtelaOp(code) {
						w.Skipped++
						continue
					}
					cs := gen.StdCase(f, code, "call", o.Gas)
					cs.Note = fmt.Sprintf("BYTES %x seeded=%v", raw, seeded)
					fn(cs, "BYTES")
				}
			}
		}
	}
	if o.Bytes3 {
		reps := opClassReps()
		for _, f := range o.Forks {
			for _, a := range reps {
				for _, b := range reps {
					if !w.Mine() {
						continue
					}
					if w.Expired() {
						return false
					}
					for _, c := range reps {
						code := gen.BuildBytes([]byte{a, b, c}, true)
						if gen.HasArtelaOp(code) {
							w.Skipped++
							continue
						}
						cs := gen.StdCase(f, code, "call", o.Gas)
						cs.Note = fmt.Sprintf("BYTES3 %x", []byte{a, b, c})
						fn(cs, "BYTES")
					}
				}
			}
		}
	}
	// SCN: scenario call trees (mutually calling contract sets: every call kind, creates, self-destructs, reverts)
	if o.Scn {
		so := &scnOpts{Forks: o.Forks, Answers: failAlphabet, BoundAll: true, TopValues: []int{0, 1}}
		if !o.ScnDeep {
			so.Forks, so.TopValues = []world.Fork{world.Byzantium, world.London, world.Shanghai}, []int{0}
		}
		so.Gen = scn.GenOpts{MaxDepth: 2, Effects: []scn.Effect{scn.ENone, scn.ESstore, scn.ELog}, PreEffects: []scn.Effect{scn.ENone, scn.ESstore}, Terms: allTerms, InitTerms: initTerms, Kinds: allKinds,
			Values: []int{0, 1, 2}, Targets: []scn.Target{scn.TgChild, scn.TgPrecompile, scn.TgCodeless, scn.TgSelf, scn.TgBadPrecompile, scn.TgAbsent}}
		if o.ScnDeep {
			so.Gen.MaxDepth, so.Gen.MaxFrames = 3, 3
		}
		if o.ScnLite {
			so.Forks = []world.Fork{world.London, world.Shanghai}
			so.Gen.Effects, so.Gen.PreEffects = []scn.Effect{scn.ENone, scn.ESstore}, []scn.Effect{scn.ENone}
			so.Gen.Terms = []scn.Term{scn.TStop, scn.TReturn, scn.TRevert, scn.TInvalid}
			so.Gen.InitTerms = []scn.Term{scn.TStop, scn.TReturn, scn.TRevert, scn.TReturnEF}
			so.Gen.Kinds = []scn.Kind{scn.KCall, scn.KDelegateCall, scn.KCreate, scn.KCreate2}
			so.Gen.Values, so.Gen.Targets = []int{0, 1}, []scn.Target{scn.TgChild, scn.TgCodeless}
		}
		ok := true
		mc.Explore(0, func(c *mc.Ctx) {
			sc := genScn(c, so)
			if !ok || sc.Fork < world.Byzantium || !w.Mine() {
				return
			}
			if w.Expired() {
				ok = false
				return
			}
			cs := sc.Case()
			cs.Gas = o.ScnGas
			cs.Note = "SCN " + sc.String()
			fn(cs, "SCN")
		}, func() bool { return !ok })
		if !ok {
			return false
		}
	}
	// EIPS: extra EIP enabled singly on the fork before its activation
	if o.EIPs {
		for _, e := range extraEIPs {
			for _, spec := range specs {
				if w.Expired() {
					return false
				}
				spec, e := spec, e
				gen.ExploreOperands(spec, 1, func(ops []*uint256.Int, choice []int) {
					if !w.Mine() || w.Truncated {
						return
					}
					code := gen.BuildIM(e.Fork, spec, gen.Shape{}, ops)
					cs := gen.StdCase(e.Fork, code, "call", o.Gas)
					cs.ExtraEips = []int{e.EIP}
					cs.Note = fmt.Sprintf("EIPS eip=%d op=%#x operands=%v", e.EIP, spec.Op, choice)
					fn(cs, "EIPS")
				})
			}
			e := e
			gen.ForEachSeq(len(alpha), 2, func(seq []int) {
				if !w.Mine() {
					return
				}
				code := gen.BuildSeq(e.Fork, alpha, seq, 2)
				cs := gen.StdCase(e.Fork, code, "call", o.Gas)
				cs.ExtraEips = []int{e.EIP}
				cs.Note = fmt.Sprintf("EIPS eip=%d SEQ %s", e.EIP, seqName(alpha, seq))
				fn(cs, "EIPS")
			})
		}
	}
	return true
}

// stdSession returns a pooled state for the standard world (cases differ only in the code of T).
func stdSession() *world.Session { return world.NewSession(gen.StdAccounts(nil)) }

func seqName(alpha []gen.Macro, seq []int) string {
	s := ""
	for i, m := range seq {
		if i > 0 {
			s += " "
		}
		s += alpha[m].Name
	}
	return s
}

// opClassReps: one representative byte per opcode class for BYTES-3.
func opClassReps() []byte {
	return []byte{0x00, 0x01, 0x0a, 0x0c, 0x10, 0x1b, 0x1e, 0x20, 0x21, 0x30, 0x31, 0x35, 0x37, 0x3b, 0x3d, 0x3e, 0x3f, 0x40, 0x46, 0x47, 0x48, 0x49,
		0x50, 0x51, 0x52, 0x54, 0x55, 0x56, 0x57, 0x58, 0x5a, 0x5b, 0x5c, 0x5e, 0x5f, 0x60, 0x61, 0x7f, 0x80, 0x8f, 0x90, 0x9f, 0xa0, 0xa2, 0xa5,
		0xb3, 0xf0, 0xf1, 0xf2, 0xf3, 0xf4, 0xf5, 0xfa, 0xfb, 0xfd, 0xfe, 0xff}
}

// DebugCountScn counts the scenarios of the lite family (diagnostics).
func DebugCountScn() (n int, sample []string) {
	w := fw.NewW("dbg", 0, 1, "quick", 0)
	o, _ := c02Opts("quick")
	o.IMBound, o.SeqL, o.EntrySeqL, o.EIPs, o.SstoreSeq = 0, 0, 0, false, false
	o.Forks = o.Forks[:1]
	forEachStdCase(w, o, func(cs *world.Case, family string) {
		if family == "SCN" {
			n++
			if n%97 == 1 && len(sample) < 12 {
				sample = append(sample, cs.Note)
			}
		}
	})
	return
}
