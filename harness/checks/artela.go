package checks

import (
	"errors"
	"fmt"
	"math/big"
	"regexp"
	"strings"

	avm "github.com/artela-network/artela-evm/vm"
	"github.com/ethereum/go-ethereum/common"
	"github.com/ethereum/go-ethereum/common/hexutil"
	"github.com/holiman/uint256"
	"verif/gen"
	"verif/mc"
	"verif/world"
)

// Shared pieces of the Artela-side checks (journal opcodes, precompiles 0x64-0x66).

// ---------------------------------------------------------------- journal matrix (C03b, C20)

// jmCase is one case of the journal matrix.
type jmCase struct {
	Case  *world.Case
	Op    string
	Class string // coarse class of the deviating operands, used in violation signatures
}

var jmForks = []world.Fork{world.Frontier, world.Byzantium, world.Berlin, world.Shanghai, world.Cancun}

func u256(h common.Hash) *uint256.Int { return new(uint256.Int).SetBytes(h[:]) }

// storageWords is the alphabet of head words placed at the journaled slot (DESIGN.md §4 C03(b)).
func storageWords(huge bool) []struct {
	Name  string
	Words func(slot *uint256.Int) map[common.Hash]common.Hash
} {
	type sw = struct {
		Name  string
		Words func(slot *uint256.Int) map[common.Hash]common.Hash
	}
	raw := func(name string, w common.Hash) sw {
		return sw{name, func(slot *uint256.Int) map[common.Hash]common.Hash {
			return map[common.Hash]common.Hash{common.Hash(slot.Bytes32()): w}
		}}
	}
	str := func(name string, data []byte) sw {
		return sw{name, func(slot *uint256.Int) map[common.Hash]common.Hash { return gen.EncodeString(slot, data) }}
	}
	longLen := func(name string, l *uint256.Int) sw {
		v := new(uint256.Int).Lsh(l, 1)
		v.Or(v, uint256.NewInt(1))
		return raw(name, common.Hash(v.Bytes32()))
	}
	out := []sw{
		raw("pattern", gen.Pattern),
		raw("zero", common.Hash{}),
		str("str0", nil),
		str("str1", []byte{0x61}),
		str("str2", []byte{0x61, 0x62}),
		str("str31", gen.PatternBytes(31)),
		str("str1_zero", []byte{0}),
		str("str2_leadzero", []byte{0, 0x62}),
		str("str31_leadzero", append([]byte{0, 0}, gen.PatternBytes(29)...)),
		str("str31_allzero", make([]byte, 31)),
		raw("short_len32_invalid", common.HexToHash("0x6162000000000000000000000000000000000000000000000000000000000040")),
		raw("short_len127_invalid", common.HexToHash("0x61620000000000000000000000000000000000000000000000000000000000fe")),
		raw("long_len1_invalid", common.BigToHash(big.NewInt(3))),
		raw("long_len31_invalid", common.BigToHash(big.NewInt(63))),
		str("str32", gen.PatternBytes(32)),
		str("str33", gen.PatternBytes(33)),
		str("str64", gen.PatternBytes(64)),
		str("str40", gen.PatternBytes(40)),
		longLen("long_2p20_nodata", uint256.NewInt(1<<20)),
	}
	if huge {
		out = append(out,
			longLen("long_2p63_nodata", new(uint256.Int).Lsh(uint256.NewInt(1), 63)),
			longLen("long_2p64m1_nodata", new(uint256.Int).SetAllOne().Rsh(new(uint256.Int).SetAllOne(), 192)),
			longLen("long_2p254_nodata", new(uint256.Int).Lsh(uint256.NewInt(1), 254)),
		)
	}
	return out
}

var slotAlphabet = []*uint256.Int{uint256.NewInt(0), uint256.NewInt(1), new(uint256.Int).SetAllOne()}
var keyValAlphabet = []*uint256.Int{uint256.NewInt(7), uint256.NewInt(0), new(uint256.Int).SetAllOne()}
var typeAlphabet = []*uint256.Int{u256(gen.TypeA), u256(gen.TypeB)}

const regNamePtr = 0x200 // where registration name strings live in memory

// buildJM resolves one journal-matrix case through the explorer.
func buildJM(c *mc.Ctx, thorough bool, huge bool) *jmCase {
	J := gen.JBoundaryQuick
	if thorough {
		J = gen.JBoundary
	}
	idxOf := func(v uint64) int {
		for i, x := range J {
			if x.IsUint64() && x.Uint64() == v {
				return i
			}
		}
		panic("alphabet")
	}
	// dev picks from an alphabet with a chosen default (alternative 0 = default).
	dev := func(al []*uint256.Int, def int) (*uint256.Int, bool) {
		i := c.Deviate(len(al))
		if i == 0 {
			return al[def], false
		}
		if i <= def {
			return al[i-1], true
		}
		return al[i], true
	}
	op := gen.JOps[c.Choose(len(gen.JOps))]
	f := jmForks[c.Choose(len(jmForks))]
	static := c.Choose(2) == 1
	registered := c.Choose(2) == 1

	prog := &gen.JProgram{}
	var operands []*uint256.Int
	var slot, base, off, typ, ptyp *uint256.Int
	slot, base, off, typ, ptyp = slotAlphabet[0], slotAlphabet[1], uint256.NewInt(0), typeAlphabet[0], typeAlphabet[1]
	var devs []string
	for _, r := range op.Roles {
		var v *uint256.Int
		var d bool
		switch r {
		case gen.JPtr:
			v, d = dev(J, idxOf(0))
			if d {
				devs = append(devs, "ptr")
			}
			// memory under the pointer
			if v.IsUint64() && v.Uint64() <= 64 {
				p := v.Uint64()
				lw, ld := dev(J, idxOf(1))
				if ld {
					devs = append(devs, "len")
				}
				extra := c.Choose(3) // data area: 0, 32 or 64 bytes beyond the length word
				if c.Choose(2) == 0 {
					prog.Mem = append(prog.Mem, gen.MemWrite{Off: p, Word: common.Hash(lw.Bytes32())})
					for i := 0; i < extra; i++ {
						h := gen.Pattern
						h[0] = byte(0x61 + i)
						prog.Mem = append(prog.Mem, gen.MemWrite{Off: p + 32 + uint64(32*i), Word: h})
					}
				} // else: memory left empty
			} else if c.Choose(2) == 1 {
				prog.Mem = append(prog.Mem, gen.MemWrite{Off: 0, Word: gen.Pattern}, gen.MemWrite{Off: 32, Word: gen.Pattern})
			}
		case gen.JSlot:
			v, d = dev(slotAlphabet, 0)
			slot = v
		case gen.JBase:
			v, d = dev(slotAlphabet, 1)
			base = v
		case gen.JOff:
			v, d = dev(J, idxOf(0))
			off = v
			if d {
				devs = append(devs, "off")
			}
		case gen.JWidth:
			v, d = dev(J, idxOf(32))
			if d {
				devs = append(devs, "width")
			}
		case gen.JType:
			v, d = dev(typeAlphabet, 0)
			typ = v
		case gen.JPType:
			v, d = dev(typeAlphabet, 1)
			ptyp = v
		case gen.JKeyVal:
			v, d = dev(keyValAlphabet, 0)
		}
		operands = append(operands, v)
	}
	// storage under the slot
	storage := map[common.Hash]common.Hash{}
	if op.Op == 0xe6 || op.Op == 0xe7 {
		sws := storageWords(huge)
		sw := sws[c.Choose(len(sws))]
		for k, v := range sw.Words(slot) {
			storage[k] = v
		}
		devs = append(devs, "word="+sw.Name)
	}
	// registration preceding the instruction
	if registered {
		name := gen.StrWords(regNamePtr, []byte("x"))
		prog.Mem = append(prog.Mem, name...)
		o8 := uint64(0)
		if off.IsUint64() && off.Uint64() <= 31 {
			o8 = off.Uint64()
		}
		switch op.Op {
		case 0xe6:
			prog.Steps = append(prog.Steps, gen.RegisterValueVar(regNamePtr, slot, o8, common.Hash(typ.Bytes32())))
		case 0xe7:
			prog.Steps = append(prog.Steps, gen.RegisterRefVar(regNamePtr, slot, common.Hash(typ.Bytes32())))
		case 0xe0, 0xe1:
			// same registration twice (idempotence path) is produced by repeating the step below
		default:
			prog.Steps = append(prog.Steps, gen.RegisterRefVar(regNamePtr, base, common.Hash(ptyp.Bytes32())))
		}
	}
	step := gen.JStep{Op: op.Op, Operands: operands}
	prog.Steps = append(prog.Steps, step)
	if registered && (op.Op == 0xe0 || op.Op == 0xe1) {
		prog.Steps = append(prog.Steps, step)
	}
	cs := gen.JCase(f, prog.Code(), storage, static, 300000)
	cs.Note = fmt.Sprintf("JM %s static=%v registered=%v step=%s mem=%d", op.Name, static, registered, step, len(prog.Mem))
	return &jmCase{Case: cs, Op: op.Name, Class: strings.Join(devs, "+")}
}

// ---------------------------------------------------------------- precompile cases (C03c, C14)

type pcCase struct {
	Case    *world.Case    `json:"case"`
	Target  byte           `json:"target"`
	Reach   gen.Reach      `json:"reach"`
	HostAns int            `json:"host_ans"` // 0 value, 1 empty, 2 error
	Caller  common.Address `json:"caller"`   // the contract (or account) whose call reaches the precompile
}

var pcForks = []world.Fork{world.Istanbul, world.Berlin, world.Shanghai}

func buildPC(c *mc.Ctx, thorough bool) *pcCase {
	target := byte(0x64 + c.Choose(3))
	reaches := gen.Reaches()
	r := reaches[c.Choose(len(reaches))]
	f := pcForks[c.Choose(len(pcForks))]
	n := gen.PayloadLengths[c.Choose(len(gen.PayloadLengths))]
	var payload []byte
	if target == 0x66 {
		payload = gen.ExplorePayload66(c, n)
	} else {
		payload = gen.PatternBytes(n)
	}
	gas := uint64(200000)
	if r.Host {
		gas = []uint64{200000, 5000, 4999}[c.Deviate(3)]
	}
	ans := c.Deviate(3)
	cs, caller := gen.PrecompileCase(f, target, r, payload, gas, false)
	cs.Note = fmt.Sprintf("PC target=%#x reach=%s len=%d ans=%d", target, r, n, ans)
	return &pcCase{Case: cs, Target: target, Reach: r, HostAns: ans, Caller: caller}
}

// hostLog records the host callbacks of one execution.
type hostLog struct {
	Calls []string
	Get   []struct {
		Addr common.Address
		Key  string
	}
	Set []struct {
		Addr  common.Address
		Key   string
		Value []byte
	}
	JIT []common.Hash
}

var (
	hostValue  = []byte("ctx-value/0123456789abcdefghijklmnopqrstuvwxyz")
	hostSender = common.HexToAddress("0x00000000000000000000000000000000005e4de7")
	errHost    = errors.New("host refused")
)

func scriptedHost(ans int, log *hostLog) *world.Host {
	return &world.Host{
		GetCtx: func(a common.Address, key string) ([]byte, error) {
			log.Calls = append(log.Calls, fmt.Sprintf("get %x %x", a[:], key))
			log.Get = append(log.Get, struct {
				Addr common.Address
				Key  string
			}{a, key})
			switch ans {
			case 0:
				return append([]byte{}, hostValue...), nil
			case 1:
				return nil, nil
			}
			return nil, errHost
		},
		SetCtx: func(a common.Address, key string, v []byte) error {
			log.Calls = append(log.Calls, fmt.Sprintf("set %x %x %x", a[:], key, v))
			log.Set = append(log.Set, struct {
				Addr  common.Address
				Key   string
				Value []byte
			}{a, key, append([]byte{}, v...)})
			if ans == 2 {
				return errHost
			}
			return nil
		},
		JITSender: func(h common.Hash) (common.Address, error) {
			log.Calls = append(log.Calls, fmt.Sprintf("jit %x", h[:]))
			log.JIT = append(log.JIT, h)
			switch ans {
			case 0:
				return hostSender, nil
			case 1:
				return common.Address{}, nil
			}
			return common.Address{}, errHost
		},
	}
}

// ---------------------------------------------------------------- bookkeeping oracle (C03, C17)

// startProbe is a debug tracer that notes how the next frame is announced.
type startProbe struct {
	world.ACount
	Starts, Enters int
}

func (p *startProbe) CaptureStart(*avm.EVM, common.Address, common.Address, bool, []byte, uint64, *big.Int) {
	p.Starts++
}
func (p *startProbe) CaptureEnter(avm.OpCode, common.Address, common.Address, []byte, uint64, *big.Int) {
	p.Enters++
}

// bookkeepingClosed checks, after an entry point has returned on env, that the VM is back at rest: call depth 0,
// call-tree cursor nil, and a follow-up top-level call is announced to the debug tracer as a depth-0 start.
func bookkeepingClosed(env *world.AEnv, probe *startProbe, f world.Fork) string {
	if d := env.EVM.VerifDepth(); d != 0 {
		return fmt.Sprintf("call depth %d after return", d)
	}
	if env.EVM.Tracer().CallTree().Current() != nil {
		return "call-tree cursor not nil after return"
	}
	if env.EVM.VerifReadOnly() {
		return "static flag still set after return"
	}
	if probe != nil {
		s0, e0 := probe.Starts, probe.Enters
		follow := &world.Case{Fork: f, Entry: "call", From: world.Origin, To: gen.CStop, Gas: 50000}
		_, _, _, err, p := env.Call(follow)
		if p != "" {
			return "follow-up call panicked: " + p
		}
		if err != nil {
			return "follow-up call failed: " + err.Error()
		}
		if probe.Starts != s0+1 || probe.Enters != e0 {
			return fmt.Sprintf("follow-up top-level call announced as %d starts / %d enters", probe.Starts-s0, probe.Enters-e0)
		}
		if env.EVM.Tracer().CallTree().Current() != nil {
			return "call-tree cursor not nil after follow-up call"
		}
	}
	return ""
}

var numRe = regexp.MustCompile(`[0-9]+`)
var hexRe = regexp.MustCompile(`0x[0-9a-f]+`)

// normPanic strips concrete numbers from a panic text so that it can serve as a signature.
func normPanic(p string) string {
	p = hexRe.ReplaceAllString(p, "H")
	p = numRe.ReplaceAllString(p, "N")
	if len(p) > 90 {
		p = p[:90]
	}
	return strings.ReplaceAll(p, " ", "_")
}

var _ = hexutil.Encode

// ExportDegraded reports whether the harness was built with the reflective fallback of the private-state export.
func ExportDegraded() bool { return avm.VerifDegraded }
