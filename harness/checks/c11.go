package checks

import (
	"bytes"
	"crypto/sha256"
	"encoding/json"
	"fmt"
	"sort"
	"strings"
	"time"

	avm "github.com/artela-network/artela-evm/vm"
	"github.com/ethereum/go-ethereum/common"
	"github.com/holiman/uint256"
	"verif/fw"
	"verif/mc"
)

// C11 — key-tree lookups by name/index path and by slot agree with registrations (explicit-state BFS over
// operation histories of the recorder API, against a two-map reference model).

type c11Op struct {
	Kind   string // regtop regnested journal enter exit
	Acct   int    // 0 = A, 1 = B
	Parent int    // parent slot (regnested)
	PType  int    // parent type (regnested)
	Slot   int
	Off    int // -1 = nil, else value (32 and 1<<40 are out of range)
	Type   int
	Name   string
	Val    int
}

func (o c11Op) String() string {
	switch o.Kind {
	case "regtop":
		return fmt.Sprintf("regtop(%c,slot=%d,off=%d,T%d,%q)", 'A'+o.Acct, o.Slot, o.Off, o.Type, o.Name)
	case "regnested":
		return fmt.Sprintf("regnested(%c,parent=%d/T%d,slot=%d,off=%d,T%d,%q)", 'A'+o.Acct, o.Parent, o.PType, o.Slot, o.Off, o.Type, o.Name)
	case "journal":
		return fmt.Sprintf("journal(%c,slot=%d,off=%d,T%d,v%d)", 'A'+o.Acct, o.Slot, o.Off, o.Type, o.Val)
	}
	return o.Kind
}

var (
	c11Accts = []common.Address{common.HexToAddress("0xa1"), common.HexToAddress("0xb2")}
	c11Types = []common.Hash{common.HexToHash("0x7100000000000000000000000000000000000000000000000000000000000001"), common.HexToHash("0x7200000000000000000000000000000000000000000000000000000000000002")}
	c11Vals  = [][]byte{{0x11}, {0x22, 0x22}}
)

func c11Alphabet(thorough bool) []c11Op {
	var ops []c11Op
	// 257 and 2^40+1 are out of range but equal 1 modulo 256 (a narrowing conversion ahead of the range check would
	// alias them with the valid offset 1)
	offs := []int{-1, 1, 32, 257}
	if thorough {
		offs = []int{-1, 0, 1, 31, 32, 257, 1<<40 + 1}
	}
	for _, slot := range []int{0, 1} {
		for _, off := range offs {
			for ty := 0; ty < 2; ty++ {
				for _, name := range []string{"x", "y"} {
					ops = append(ops, c11Op{Kind: "regtop", Slot: slot, Off: off, Type: ty, Name: name})
				}
			}
		}
	}
	ops = append(ops, c11Op{Kind: "regtop", Acct: 1, Slot: 0, Off: -1, Type: 0, Name: "x"})
	for _, parent := range []int{0, 1} {
		for _, slot := range []int{0, 2} {
			for ty := 0; ty < 2; ty++ {
				for _, name := range []string{"i", "x"} {
					ops = append(ops, c11Op{Kind: "regnested", Parent: parent, PType: 0, Slot: slot, Off: -1, Type: ty, Name: name})
				}
			}
		}
	}
	// a member whose index key is the empty string (m[""] of a mapping with string keys)
	ops = append(ops, c11Op{Kind: "regnested", Parent: 0, PType: 0, Slot: 2, Off: -1, Type: 0, Name: ""}, c11Op{Kind: "regnested", Parent: 1, PType: 0, Slot: 2, Off: -1, Type: 1, Name: ""})
	// nested members at a non-zero offset of their own (packed struct members), and a second-level nesting
	ops = append(ops, c11Op{Kind: "regnested", Parent: 0, PType: 0, Slot: 2, Off: 1, Type: 0, Name: "j"}, c11Op{Kind: "regnested", Parent: 1, PType: 0, Slot: 1, Off: 1, Type: 1, Name: "j"})
	if thorough {
		ops = append(ops, c11Op{Kind: "regnested", Parent: 0, PType: 1, Slot: 2, Off: 1, Type: 0, Name: "j"}, c11Op{Kind: "regnested", Parent: 2, PType: 0, Slot: 3, Off: -1, Type: 0, Name: "i"})
	}
	for _, slot := range []int{0, 2} {
		for _, off := range []int{-1, 1, 32, 257} {
			for ty := 0; ty < 2; ty++ {
				for v := 0; v < 2; v++ {
					ops = append(ops, c11Op{Kind: "journal", Slot: slot, Off: off, Type: ty, Val: v})
				}
			}
		}
	}
	ops = append(ops, c11Op{Kind: "journal", Acct: 1, Slot: 0, Off: -1, Type: 0, Val: 0}, c11Op{Kind: "journal", Slot: 1, Off: -1, Type: 0, Val: 0})
	ops = append(ops, c11Op{Kind: "enter"}, c11Op{Kind: "exit"})
	return ops
}

func c11Off(o int) *uint256.Int {
	if o < 0 {
		return nil
	}
	return uint256.NewInt(uint64(o))
}

func off8(o int) (uint8, bool) {
	if o < 0 {
		return 0, true
	}
	if o > 31 {
		return 0, false
	}
	return uint8(o), true
}

// reference model
type c11Key struct {
	Acct, Slot int
	Off        uint8
	Type       int
}

type c11Reg struct {
	Path string // acct/name/name...
	Key  c11Key
	// how the registration related to earlier ones when it was made
	Conflict bool
}

type c11Model struct {
	byPath   map[string]int // path -> record id (first wins)
	byKey    map[c11Key]int // key -> record id (first wins)
	pathOf   map[c11Key]string
	regs     []c11Reg
	children map[string]map[string]bool // path -> child names
	conflict bool                       // some accepted registration conflicted with an earlier one
	nextID   int
}

func newC11Model() *c11Model {
	return &c11Model{byPath: map[string]int{}, byKey: map[c11Key]int{}, pathOf: map[c11Key]string{}, children: map[string]map[string]bool{}}
}

type c11Result struct {
	Conflict bool // the history contains a conflicting registration
	HasKeys  bool
	Key    string
	Sig    string
	Detail string
}

// c11Replay runs a history on a fresh recorder, checking the model against the implementation after every
// operation; the verdict concerns the last operation (earlier ones were judged when their histories were expanded).
func c11Replay(ops []c11Op) c11Result {
	tr := avm.NewTracer()
	sc := tr.StateChanges()
	m := newC11Model()
	var res c11Result
	fail := func(sig, detail string) {
		if res.Sig == "" {
			res.Sig, res.Detail = sig, detail
		}
	}
	lookup := func(r c11Reg) (kn, ks *avm.StorageKey) {
		parts := strings.Split(r.Path, "/")
		var idx [][]byte
		for _, p := range parts[2:] {
			idx = append(idx, []byte(p))
		}
		kn = sc.FindKeyIndices(c11Accts[r.Key.Acct], parts[1], idx...)
		ks = sc.VerifFindKey(c11Accts[r.Key.Acct], uint256.NewInt(uint64(r.Key.Slot)), r.Key.Off, c11Types[r.Key.Type])
		return
	}
	consistent := func(r c11Reg) bool { kn, ks := lookup(r); return kn != nil && kn == ks }
	for i, op := range ops {
		last := i == len(ops)-1
		res = c11Result{}
		before := sc.VerifDump()
		// consistency of earlier registrations before the operation
		was := make([]bool, len(m.regs))
		var recBefore []*avm.StorageKey
		for j, r := range m.regs {
			was[j] = consistent(r)
			kn, _ := lookup(r)
			recBefore = append(recBefore, kn)
		}
		acct := c11Accts[op.Acct]
		switch op.Kind {
		case "enter":
			to := acct
			tr.SaveCall(acct, &to, nil, uint256.NewInt(0), uint256.NewInt(1))
		case "exit":
			tr.ExitCall(0, nil, nil)
		case "regtop", "regnested":
			o8, offOK := off8(op.Off)
			var err error
			var parentPath string
			parentOK := true
			if op.Kind == "regtop" {
				err = tr.SaveStateKey(acct, nil, uint256.NewInt(uint64(op.Slot)), c11Off(op.Off), c11Types[op.Type], common.Hash{}, []byte(op.Name))
				parentPath = fmt.Sprint(op.Acct)
			} else {
				err = tr.SaveStateKey(acct, uint256.NewInt(uint64(op.Parent)), uint256.NewInt(uint64(op.Slot)), c11Off(op.Off), c11Types[op.Type], c11Types[op.PType], []byte(op.Name))
				pk := c11Key{op.Acct, op.Parent, 0, op.PType}
				if _, ok := m.byKey[pk]; ok {
					parentPath = m.pathOf[pk]
				} else {
					parentOK = false
				}
			}
			if !offOK || !parentOK {
				if err == nil {
					fail("refusal:registration_accepted", fmt.Sprintf("%s must be refused (offset in range=%v, parent registered=%v) but was accepted", op, offOK, parentOK))
				} else if d := sc.VerifDump(); d != before {
					fail("refusal:modified_state", fmt.Sprintf("%s was refused (%v) but modified the recorder", op, err))
				}
				break
			}
			if err != nil {
				if m.conflict {
					fail("conflict:registration_refused_for_registered_parent", fmt.Sprintf("%s: the parent's registration was accepted earlier (it conflicted with another key), the nested registration is refused: %v", op, err))
				} else {
					fail("registration_refused", fmt.Sprintf("%s is a valid registration but was refused: %v", op, err))
				}
				break
			}
			path := parentPath + "/" + op.Name
			key := c11Key{op.Acct, op.Slot, o8, op.Type}
			pid, pok := m.byPath[path]
			kid, kok := m.byKey[key]
			// same parent, same (slot, offset) with another type counts as a conflict too (the tree is keyed by slot/offset)
			sameSlotOtherType := false
			for _, r := range m.regs {
				if r.Key.Acct == key.Acct && r.Key.Slot == key.Slot && r.Key.Off == key.Off && r.Key.Type != key.Type && parentOf(r.Path) == parentPath {
					sameSlotOtherType = true
				}
			}
			// a registration made after a conflict (e.g. under a parent that is itself a conflicting record) is judged
			// by the conflict signatures as well
			reg := c11Reg{Path: path, Key: key, Conflict: m.conflict}
			switch {
			case pok && kok && pid == kid:
				// idempotent re-registration
				if d := sc.VerifDump(); d != before {
					fail("idempotence", fmt.Sprintf("repeating %s changed the recorder\nbefore:\n%s\nafter:\n%s", op, before, d))
				}
			case !pok && !kok && !sameSlotOtherType:
				m.byPath[path], m.byKey[key], m.pathOf[key] = m.nextID, m.nextID, path
				m.nextID++
			default:
				reg.Conflict = true
				m.conflict = true
				if !pok {
					m.byPath[path] = m.nextID
					m.nextID++
				}
				if !kok {
					m.byKey[key], m.pathOf[key] = m.nextID, path
					m.nextID++
				}
			}
			if m.children[parentPath] == nil {
				m.children[parentPath] = map[string]bool{}
			}
			m.children[parentPath][op.Name] = true
			m.regs = append(m.regs, reg)
		case "journal":
			o8, offOK := off8(op.Off)
			err := tr.SaveStateChange(acct, uint256.NewInt(uint64(op.Slot)), c11Off(op.Off), c11Types[op.Type], c11Vals[op.Val])
			key := c11Key{op.Acct, op.Slot, o8, op.Type}
			_, registered := m.byKey[key]
			if !offOK || !registered {
				if err == nil {
					fail("refusal:journal_accepted", fmt.Sprintf("%s must be refused (offset in range=%v, key registered=%v) but was accepted", op, offOK, registered))
				} else if d := sc.VerifDump(); d != before {
					fail("refusal:modified_state", fmt.Sprintf("%s was refused (%v) but modified the recorder", op, err))
				}
				break
			}
			if err != nil {
				if m.conflict {
					fail("conflict:journal_refused_for_registered_key", fmt.Sprintf("%s: the key's registration was accepted earlier, the journal is refused: %v", op, err))
				} else {
					fail("journal_refused", fmt.Sprintf("%s: key is registered, journal refused: %v", op, err))
				}
				break
			}
			ci := tr.CurrentCallIndex()
			ks := sc.VerifFindKey(acct, uint256.NewInt(uint64(op.Slot)), o8, c11Types[op.Type])
			lastOf := func(c *avm.StorageChanges) []byte {
				if c == nil {
					return nil
				}
				l := c.Changes()[ci]
				if len(l) == 0 {
					return nil
				}
				return l[len(l)-1]
			}
			if ks == nil || !bytes.Equal(lastOf(ks.Changes()), c11Vals[op.Val]) {
				fail("journal_lost", fmt.Sprintf("%s accepted, but the slot view does not end with the value under call %d", op, ci))
				break
			}
			bySlot, _ := sc.Slot(acct, uint256.NewInt(uint64(op.Slot)), c11Off(op.Off), c11Types[op.Type])
			if !bytes.Equal(lastOf(bySlot), c11Vals[op.Val]) {
				fail("journal_lost", fmt.Sprintf("%s accepted, Slot() does not return it", op))
			}
			// the name view of the key's own path must return it too
			path := m.pathOf[key]
			parts := strings.Split(path, "/")
			var idx [][]byte
			for _, p := range parts[2:] {
				idx = append(idx, []byte(p))
			}
			if byName := sc.Variable(acct, parts[1], idx...); !bytes.Equal(lastOf(byName), c11Vals[op.Val]) {
				if m.conflict {
					fail("conflict:journal_invisible_by_name", fmt.Sprintf("%s accepted; Variable(%s) does not return it", op, path))
				} else {
					fail("views_differ", fmt.Sprintf("%s accepted; Variable(%s) does not return it", op, path))
				}
			}
		}
		// invariants over all registrations
		for j, r := range m.regs {
			kn, ks := lookup(r)
			now := kn != nil && kn == ks
			earlier := j < len(was)
			switch {
			case now:
			case earlier && was[j]:
				fail("stability:consistent_key_broken", fmt.Sprintf("after %s the earlier registration %s (slot %d off %d T%d), consistent until now, resolves by name to %p and by slot to %p", op, r.Path, r.Key.Slot, r.Key.Off, r.Key.Type, kn, ks))
			case earlier:
				// was already inconsistent: judged when it appeared
			case !r.Conflict:
				fail("inconsistent:conflict_free_registration", fmt.Sprintf("%s: name path %s resolves to %p, (slot %d off %d T%d) resolves to %p", op, r.Path, kn, r.Key.Slot, r.Key.Off, r.Key.Type, ks))
			case kn == nil:
				fail("conflict:later:path_lost", fmt.Sprintf("%s accepted but its name path %s resolves to nothing", op, r.Path))
			case ks == nil:
				fail("conflict:later:slot_unindexed", fmt.Sprintf("%s accepted (shares slot/offset with an earlier key of another type or name) but (slot %d off %d T%d) is not in the flat index", op, r.Key.Slot, r.Key.Off, r.Key.Type))
			default:
				fail("conflict:later:name_and_slot_reach_different_records", fmt.Sprintf("%s accepted; name path %s and (slot %d off %d T%d) reach different records", op, r.Path, r.Key.Slot, r.Key.Off, r.Key.Type))
			}
			if earlier && recBefore[j] != nil && kn != recBefore[j] {
				fail("stability:name_rebound", fmt.Sprintf("after %s the path %s resolves to another record", op, r.Path))
			}
		}
		// every flat-index key must be reachable by name, unless a conflict produced it
		if !m.conflict {
			for a := range c11Accts {
				reach := sc.VerifReachableByName(c11Accts[a])
				for _, k := range sc.VerifIndexKeys(c11Accts[a]) {
					if !reach[k] {
						fail("inconsistent:indexed_key_unreachable_by_name", fmt.Sprintf("after %s a key at slot %s is in the flat index but unreachable by name", op, k.Slot().Hex()))
					}
				}
			}
		}
		// child indices
		for path, names := range m.children {
			parts := strings.Split(path, "/")
			var want []string
			for nme := range names {
				want = append(want, nme)
			}
			sort.Strings(want)
			var got []string
			a := c11Accts[int(parts[0][0]-'0')]
			if len(parts) == 1 {
				// root: public API has no accessor for the root's children; use registered names through lookups
				for _, w := range want {
					if sc.FindKeyIndices(a, w) != nil {
						got = append(got, w)
					}
				}
			} else {
				var idx [][]byte
				for _, p := range parts[2:] {
					idx = append(idx, []byte(p))
				}
				for _, b := range sc.IndicesOfChanges(a, parts[1], idx...) {
					got = append(got, string(b))
				}
				sort.Strings(got)
				if k := sc.FindKeyIndices(a, parts[1], idx...); k != nil {
					var viaKey []string
					for _, b := range k.ChildrenIndices() {
						viaKey = append(viaKey, string(b))
					}
					sort.Strings(viaKey)
					if fmt.Sprint(viaKey) != fmt.Sprint(got) || len(k.Children()) != len(got) {
						fail("children:views_differ", fmt.Sprintf("IndicesOfChanges %v, ChildrenIndices %v, Children %d", got, viaKey, len(k.Children())))
					}
				}
			}
			if fmt.Sprint(got) != fmt.Sprint(want) {
				fail("children:wrong_set", fmt.Sprintf("after %s node %s reports child indices %v, registered %v", op, path, got, want))
			}
		}
		if !last {
			if res.Sig != "" && !strings.HasPrefix(res.Sig, "conflict:") {
				// an earlier transition of this history already violated: the history is not expanded further
				return c11Result{Key: "", Sig: "", Detail: "pruned"}
			}
			res = c11Result{}
		}
	}
	// state identity = private state of the recorder + the model state (a refused-in-effect conflicting registration
	// leaves the recorder unchanged but not the model, so the dump alone would merge states with different futures)
	var ms []string
	for _, r := range m.regs {
		ms = append(ms, fmt.Sprintf("%s|%v|%v", r.Path, r.Key, r.Conflict))
	}
	sort.Strings(ms)
	dump := sc.VerifDump()
	sum := sha256.Sum256([]byte(dump + tr.CallTree().VerifDump() + strings.Join(ms, ";")))
	res.Key = string(sum[:16])
	res.HasKeys = strings.Contains(dump, "index ")
	res.Conflict = m.conflict
	return res
}

func parentOf(path string) string {
	i := strings.LastIndex(path, "/")
	if i < 0 {
		return ""
	}
	return path[:i]
}

func c11Depth(tier string) int {
	if tier == "thorough" {
		return 6
	}
	return 4
}

func init() {
	register(&Check{
		ID:        "C11",
		Level:     "model_checking",
		Technique: "explicit-state breadth-first search over operation histories of the recorder API (successor = replay of the shortest history on a fresh recorder + one operation; visited set keyed by a canonical dump of the recorder's private state), every transition checked against a two-map reference model",
		Rule: "operations = register top-level (2 accounts, slots {0,1}, offsets {nil,1,32,257} (+{0,31,2^40+1} thorough), 2 type ids, names {x,y}), register nested under (parent slot, parent type) with slots {0,2}, 2 types, keys {i,x,empty}, journal change (slots {0,2,1}, offsets, types, 2 values), enter call, exit call; all histories up to the depth bound, expanded only from states with a new private-state dump. Per transition: accepted/refused as the model says; refusals and repeated registrations leave the dump unchanged; every registration that was consistent stays consistent and bound to the same record; name path and (slot, offset, type) of every conflict-free registration reach the same record; accepted journals appear last under the current call index in both views; reported child indices equal the registered set. non-trivial = distinct states in which at least one key is registered",
		Assumptions: []string{"registrations that conflict with an earlier one (same slot/offset under one parent with another name or type, same name with another slot, same key under another parent) cannot satisfy the statement under first-registration-wins; their symptoms are classified by signature (known findings), any other symptom is reported"},
		Bounds: func(t string) map[string]any {
			return map[string]any{"depth": c11Depth(t), "operations": len(c11Alphabet(t == "thorough"))}
		},
		Quick:    60 * time.Second,
		Thorough: 25 * time.Minute,
		Run: func(w *fw.W) {
			if avm.VerifDegraded {
				w.Notes = append(w.Notes, "HARNESS ERROR: C11 needs the private flat-index lookups of the state-change recorder; the export overlay does not compile against this tree (private representation changed), so the property cannot be judged")
				return
			}
			ops := c11Alphabet(w.Thorough())
			history := func(h []int) []c11Op {
				out := make([]c11Op, len(h))
				for i, x := range h {
					out[i] = ops[x]
				}
				return out
			}
			b := &mc.BFS{NumOps: len(ops), MaxDepth: c11Depth(w.Tier), Stop: func() bool { return w.Expired() }}
			b.Run = func(h []int) (string, bool) {
				if len(h) == 1 && !w.Mine() {
					return "", false // first-level subtrees are sharded over the workers
				}
				r := c11Replay(history(h))
				if len(h) == 0 {
					return r.Key, true
				}
				w.Evals++
				hk := fw.Hash(r.Key)
				if r.Detail == "pruned" {
					return "", false
				}
				w.State(hk)
				if r.HasKeys {
					w.Nontrivial(hk)
				}
				if w.Evals%30011 == 1 {
					w.Sample(map[string]any{"history": fmt.Sprint(history(h))})
				}
				if r.Sig == "" && r.Conflict {
					w.Extra("conflicting_registrations_without_symptom", 1)
					return r.Key, false
				}
				if r.Sig != "" {
					// the harness is deterministic; a verdict that varies between runs of one history means the code
					// under test is not (e.g. it ranges over a map): still a violation as long as it shows up again
					again := 0
					for i := 0; i < 4; i++ {
						if r2 := c11Replay(history(h)); r2.Sig != "" {
							again++
							if r2.Sig != r.Sig {
								r.Detail = "(verdict varies between runs of the same history: " + r2.Sig + ") " + r.Detail
							}
						}
					}
					if again == 0 {
						w.Notes = append(w.Notes, "UNREPRODUCED: C11 violation did not reproduce")
						return "", false
					}
					w.Violate(r.Sig, r.Detail+"\nhistory: "+fmt.Sprint(history(h)), map[string]any{"thorough": w.Thorough(), "history": h})
					return r.Key, false
				}
				return r.Key, true
			}
			b.Search()
			w.Transitions += b.Transitions
			w.Extra("bfs_states", b.States)
			w.Extra(fmt.Sprintf("bfs_workers_completed_depth_%d", b.DepthDone), 1)
			w.Extra("bfs_frontier_unexpanded", b.Frontier)
			if !b.Complete {
				w.Truncated = true
			}
		},
		Replay: func(raw json.RawMessage) []fw.Violation {
			var r struct {
				Thorough bool  `json:"thorough"`
				History  []int `json:"history"`
			}
			if err := json.Unmarshal(raw, &r); err != nil {
				panic(err)
			}
			ops := c11Alphabet(r.Thorough)
			var h []c11Op
			for _, x := range r.History {
				h = append(h, ops[x])
			}
			res := c11Replay(h)
			if res.Sig == "" {
				return nil
			}
			return []fw.Violation{{Sig: res.Sig, Detail: res.Detail, Case: raw}}
		},
	})
}
