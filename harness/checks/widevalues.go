package checks

import (
	"fmt"
	"math/big"

	"github.com/ethereum/go-ethereum/common/hexutil"
	"github.com/holiman/uint256"
	"verif/asm"
	"verif/fw"
	"verif/gen"
	"verif/world"
)

// wideValues: amounts on both sides of every machine-word boundary a recorder could narrow the call value to. The
// scenario grammar's amounts are {0, 1, more than the balance}; this family makes the same attempts with amounts
// that do not fit 64 / 128 / 192 bits, from accounts that can afford them.
var wideValues = func() []*big.Int {
	var out []*big.Int
	for _, sh := range []uint{64, 128, 192} {
		b := new(big.Int).Lsh(big.NewInt(1), sh)
		out = append(out, new(big.Int).Sub(b, big.NewInt(1)), b, new(big.Int).Add(b, big.NewInt(5)))
	}
	return out
}()

// wideValueRun: entry point (call / create) with amount v to / of a program that makes a CALL, a CREATE
// and (where the fork has it) a CREATE2 each carrying v. Every recorded node must carry exactly v.
func wideValueRun(f world.Fork, entry string, v *big.Int) (sig, detail string) {
	rich := (*hexutil.Big)(new(big.Int).Lsh(big.NewInt(1), 220))
	p := asm.New()
	// (the call tree has nodes for CALL, CREATE and CREATE2 attempts and the host's Call / Create only)
	p.Push(0).Push(0).Push(0).Push(0).PushBig(v).PushAddr(gen.CEcho).Op(asm.GAS, asm.CALL, asm.POP)
	p.Push(0).Push(0).PushBig(v).Op(asm.CREATE, asm.POP)
	want := 3
	if f >= world.Constantinople {
		p.Push(7).Push(0).Push(0).PushBig(v).Op(asm.CREATE2, asm.POP)
		want = 4
	}
	p.Op(asm.STOP)
	cs := gen.StdCase(f, p.Bytes(), entry, 5_000_000)
	cs.Value = (*hexutil.Big)(v)
	if entry == "create" {
		cs.Input = p.Bytes()
	}
	for i := range cs.Accounts {
		if cs.Accounts[i].Addr == world.Origin || cs.Accounts[i].Addr == gen.T {
			cs.Accounts[i].Balance = rich
		}
	}
	if entry == "create" {
		// the created account pays the inner amounts out of what it received: give it all of them up front
		cs.Value = (*hexutil.Big)(new(big.Int).Mul(v, big.NewInt(4)))
	}
	env := world.NewA(cs, world.AOpts{})
	_, _, _, err, pn := env.Call(cs)
	if pn != "" {
		return "panic", pn
	}
	if err != nil {
		return "harness", "wide-value program failed: " + err.Error()
	}
	ct := env.EVM.Tracer().CallTree()
	top := new(uint256.Int)
	top.SetFromBig(cs.ValueBig())
	inner := new(uint256.Int)
	inner.SetFromBig(v)
	for i := 0; i < want; i++ {
		c := ct.FindCall(uint64(i))
		if c == nil {
			return "missing_attempt", fmt.Sprintf("attempt %d of %d is not in the call tree (code %x)", i, want, p.Bytes())
		}
		if c.Err != nil {
			return "harness", fmt.Sprintf("attempt %d failed: %v", i, c.Err)
		}
		exp := inner
		if i == 0 {
			exp = top
		}
		if c.Value == nil || !c.Value.Eq(exp) {
			return "value", fmt.Sprintf("attempt %d (%s entry, 0 = top, then CALL, CREATE, CREATE2) was made with value %s and is recorded with %v", i, entry, exp.Hex(), c.Value)
		}
	}
	return "", ""
}

func wideValueSpecial(w *fw.W, prop string) {
	if !w.MineKey(fw.Hash("wide-value-special")) {
		return
	}
	for _, f := range []world.Fork{world.Byzantium, world.Shanghai} {
		for _, entry := range []string{"call", "create"} {
			for i, v := range wideValues {
				sig, detail := wideValueRun(f, entry, v)
				w.Evals++
				w.Extra("special_wide_values", 1)
				h := fw.Hash("wide-value", f.String(), entry, fmt.Sprint(i))
				w.State(h)
				w.Nontrivial(h)
				if sig != "" {
					w.Violate("wide_value:"+sig, detail, map[string]any{"special": "wide_value", "fork": f, "entry": entry, "value": v.String()})
				}
			}
		}
	}
}
