package checks

import (
	"bytes"
	"encoding/json"
	"fmt"
	"math/big"
	"time"

	avm "github.com/artela-network/artela-evm/vm"
	"github.com/ethereum/go-ethereum/common"
	"verif/fw"
	"verif/gen"
	"verif/mc"
	"verif/world"
)

// C14 — Artela precompiles decode payloads exactly and attribute writes to the caller.

// pcObs is what one precompile case shows.
type pcObs struct {
	Panic    string
	OK       bool   // the call that reached the precompile succeeded (as its caller sees it)
	Ret      []byte // return data of that call
	Used     uint64 // gas used by the precompile frame (from the debug tracer; host reach: gas - leftover)
	HaveUsed bool
	Log      *hostLog
}

// runPC executes one precompile case on env (fresh or shared) and extracts the observation.
func runPC(env *world.AEnv, pc *pcCase, rec *world.ARec, log *hostLog) *pcObs {
	o := &pcObs{Log: log}
	pa := gen.PrecompileAddr(pc.Target)
	var stack []common.Address
	rec.OnEnter = func(top bool, typ avm.OpCode, from, to common.Address, input []byte, gas uint64, value *big.Int) {
		stack = append(stack, to)
	}
	rec.OnExit = func(top bool, output []byte, gasUsed uint64, err error) {
		if len(stack) == 0 {
			return
		}
		to := stack[len(stack)-1]
		stack = stack[:len(stack)-1]
		if to == pa {
			o.Used, o.HaveUsed = gasUsed, true
		}
	}
	ret, _, gas, err, p := env.Call(pc.Case)
	rec.OnEnter, rec.OnExit = nil, nil
	o.Panic = p
	if p != "" {
		return o
	}
	if pc.Reach.Host {
		o.OK, o.Ret = err == nil, ret
		if err == nil {
			o.Used, o.HaveUsed = pc.Case.Gas-gas, true
		}
		return o
	}
	// forwarder output: flag ++ return data (nested once more for depth 2)
	strip := func(b []byte) (bool, []byte, bool) {
		if len(b) < 32 {
			return false, nil, false
		}
		return b[31] == 1, b[32:], true
	}
	okOuter, rest, wf := strip(ret)
	if err != nil || !wf {
		o.Panic = fmt.Sprintf("harness: forwarder did not return (err=%v, %d bytes)", err, len(ret))
		return o
	}
	if pc.Reach.Depth == 2 {
		if !okOuter {
			o.Panic = "harness: outer forwarder call failed"
			return o
		}
		okOuter, rest, wf = strip(rest)
		if !wf {
			o.Panic = "harness: inner forwarder returned no flag"
			return o
		}
	}
	o.OK, o.Ret = okOuter, rest
	return o
}

func hostAnswerRet(target byte, ans int) []byte {
	switch target {
	case 0x64:
		if ans == 0 {
			return hostValue
		}
	case 0x65:
		if ans == 0 {
			return hostSender.Hash().Bytes()
		}
		return common.Address{}.Hash().Bytes()
	}
	return nil
}

// judgePC applies the oracle of DESIGN.md §4 C14 to one observation. Returns (signature, detail) or "".
func judgePC(pc *pcCase, o *pcObs) (string, string) {
	t := fmt.Sprintf("%#x", pc.Target)
	if o.Panic != "" {
		return t + ":panic:" + normPanic(o.Panic), o.Panic
	}
	payload := []byte(pc.Case.Input)
	log := o.Log
	ncalls := len(log.Calls)
	if pc.Case.Fork < world.Berlin {
		// ordinary (absent) accounts before Berlin
		if ncalls != 0 || !o.OK || len(o.Ret) != 0 {
			return t + ":pre_berlin_active", fmt.Sprintf("before Berlin the address must be an ordinary account: ok=%v ret=%x host calls=%v", o.OK, o.Ret, log.Calls)
		}
		return "", ""
	}
	if pc.Reach.Host && pc.Case.Gas < 5000 {
		if o.OK || ncalls != 0 {
			return t + ":fee_not_charged", fmt.Sprintf("gas %d < fee 5000 but ok=%v host calls=%v", pc.Case.Gas, o.OK, log.Calls)
		}
		return "", ""
	}
	if o.OK && o.HaveUsed && o.Used != 5000 {
		return t + ":fee", fmt.Sprintf("successful call used %d gas, fixed fee is 5000", o.Used)
	}
	hostOK := pc.HostAns != 2
	switch pc.Target {
	case 0x64:
		if len(payload) < 20 {
			if ncalls != 0 {
				return t + ":host_called_on_truncated", fmt.Sprintf("payload %d bytes, host calls=%v", len(payload), log.Calls)
			}
			if o.OK {
				return t + ":short_payload_accepted", fmt.Sprintf("payload of %d bytes (< 20) returned success with %d bytes instead of an error", len(payload), len(o.Ret))
			}
			return "", ""
		}
		if len(log.Get) != 1 || ncalls != 1 || log.Get[0].Addr != common.BytesToAddress(payload[:20]) || log.Get[0].Key != string(payload[20:]) {
			return t + ":host_args", fmt.Sprintf("host must get (payload[:20], payload[20:]) once; got %v", log.Calls)
		}
	case 0x65:
		if len(payload) < 32 {
			if ncalls != 0 {
				return t + ":short_payload_passed_to_host", fmt.Sprintf("payload of %d bytes (< 32, not a hash) was zero-extended and passed to the host instead of being rejected; host calls=%v", len(payload), log.Calls)
			}
			if o.OK {
				return t + ":short_payload_accepted", fmt.Sprintf("payload of %d bytes (< 32, not a hash) returned success instead of an error", len(payload))
			}
			return "", ""
		}
		if len(payload) > 32 {
			return "", "unjudged" // the statement does not say which 32 bytes of a longer payload are "the hash"
		}
		if len(log.JIT) != 1 || ncalls != 1 || log.JIT[0] != common.BytesToHash(payload) {
			return t + ":host_args", fmt.Sprintf("host must get the 32-byte payload as hash once; got %v", log.Calls)
		}
	case 0x66:
		key, value, valid := gen.DecodeBytes2(payload)
		direct := pc.Reach.Kind == "call"
		if !valid {
			if ncalls != 0 {
				return t + ":host_called_on_malformed", fmt.Sprintf("reference decoder rejects the payload, host calls=%v", log.Calls)
			}
			if o.OK {
				if len(payload) < 128 {
					return t + ":short_payload_accepted", fmt.Sprintf("payload of %d bytes (< 128, cannot hold two byte strings) returned success instead of an error", len(payload))
				}
				return t + ":malformed_accepted", "reference decoder rejects the payload but the call succeeded"
			}
			return "", ""
		}
		if ncalls == 0 {
			if !o.OK {
				if direct {
					return t + ":valid_rejected", fmt.Sprintf("well-formed payload (key %x, value %d bytes) was refused on a direct CALL", key, len(value))
				}
				return "", "" // refusal is allowed for CALLCODE/DELEGATECALL/STATICCALL
			}
			if len(payload) < 128 {
				return t + ":short_payload_accepted", fmt.Sprintf("decodable payload of %d bytes returned success without reaching the host", len(payload))
			}
			return t + ":write_dropped", "call succeeded but the host never received the write"
		}
		if len(log.Set) != 1 || ncalls != 1 {
			return t + ":host_args", fmt.Sprintf("expected exactly one write, got %v", log.Calls)
		}
		w := log.Set[0]
		if w.Addr != pc.Caller {
			return t + ":attribution", fmt.Sprintf("write recorded under %x, the contract whose call reached the precompile is %x (reach %s)", w.Addr[:], pc.Caller[:], pc.Reach)
		}
		if w.Key != string(key) || !bytes.Equal(w.Value, value) {
			return t + ":host_args", fmt.Sprintf("host got key %x value %x, payload encodes key %x value %x", w.Key, w.Value, key, value)
		}
	}
	// the host was reached with the right arguments: its answer must be passed through
	if o.OK != hostOK {
		return t + ":passthrough", fmt.Sprintf("host answered ok=%v, caller saw ok=%v", hostOK, o.OK)
	}
	if o.OK && !bytes.Equal(o.Ret, hostAnswerRet(pc.Target, pc.HostAns)) {
		return t + ":passthrough", fmt.Sprintf("host answer %x, caller saw %x", hostAnswerRet(pc.Target, pc.HostAns), o.Ret)
	}
	return "", ""
}

func c14One(pc *pcCase) (sig, detail string, o *pcObs) {
	log := &hostLog{}
	rec := &world.ARec{Rec: world.Rec{NoData: true}}
	env := world.NewA(pc.Case, world.AOpts{Tracer: rec, Host: scriptedHost(pc.HostAns, log)})
	o = runPC(env, pc, rec, log)
	sig, detail = judgePC(pc, o)
	return
}

// c14Pair runs two well-formed 0x66 writes with distinct callers one after the other (same EVM or two fresh EVMs
// in this process) and judges each: attribution must not leak from one call to the next.
type c14PairCase struct {
	First, Second *pcCase
	SameEVM       bool
}

func c14RunPair(p *c14PairCase) (sig, detail string) {
	var env *world.AEnv
	for i, pc := range []*pcCase{p.First, p.Second} {
		log := &hostLog{}
		rec := &world.ARec{Rec: world.Rec{NoData: true}}
		if env == nil || !p.SameEVM {
			env = world.NewA(pc.Case, world.AOpts{Tracer: rec, Host: scriptedHost(pc.HostAns, log)})
		} else {
			env.EVM.Config.Tracer = rec
			env.Ctx = world.WithHost(scriptedHost(pc.HostAns, log))
		}
		o := runPC(env, pc, rec, log)
		if s, d := judgePC(pc, o); s != "" {
			return fmt.Sprintf("%s:history%d", s, i+1), fmt.Sprintf("call %d of the history (%s then %s, same EVM=%v): %s", i+1, p.First.Reach, p.Second.Reach, p.SameEVM, d)
		}
	}
	return "", ""
}

// c14ForkCrossing: an EVM that is moved over the Berlin activation block with SetBlockContext must offer exactly the
// precompile set of the rules it is under now: built before Berlin and moved behind it, 0x64-0x66 behave as on Berlin;
// built behind Berlin and moved before it, the addresses are ordinary code-less accounts (no fee, host never called).
func c14ForkCrossing(w *fw.W) {
	cfg := *world.Config(world.Berlin)
	cfg.BerlinBlock = big.NewInt(2000) // world.BlockNumber (1000) lies before it
	var payload66 []byte
	mc.Replay(nil, func(c *mc.Ctx) { payload66 = gen.ExplorePayload66(c, 192) })
	for _, target := range []byte{0x64, 0x65, 0x66} {
		for _, r := range []gen.Reach{{Host: true, Kind: "call"}, {Kind: "call", Depth: 1}, {Kind: "call", Depth: 2}} {
			for _, up := range []bool{true, false} {
				payload := gen.PatternBytes(64)
				if target == 0x66 {
					payload = payload66
				}
				cs, caller := gen.PrecompileCase(world.Berlin, target, r, payload, 200000, false)
				cs.Note = fmt.Sprintf("fork crossing target=%#x reach=%s built %s Berlin, moved to the other side", target, r, map[bool]string{true: "before", false: "behind"}[up])
				pc := &pcCase{Case: cs, Target: target, Reach: r, HostAns: 0, Caller: caller}
				log := &hostLog{}
				rec := &world.ARec{Rec: world.Rec{NoData: true}}
				opts := world.AOpts{Tracer: rec, Host: scriptedHost(0, log), ChainConfig: &cfg}
				if !up {
					opts.BlockNumber = 3000
				}
				env := world.NewA(cs, opts)
				bc := env.BlockCtx
				if up {
					bc.BlockNumber = big.NewInt(3000)
				} else {
					bc.BlockNumber = big.NewInt(world.BlockNumber)
				}
				env.EVM.SetBlockContext(bc)
				o := runPC(env, pc, rec, log)
				w.Evals++
				w.Transitions++
				h := fw.Hash(cs.Note)
				w.State(h)
				w.Extra("fork_crossings", 1)
				var sig, detail string
				if up {
					w.Nontrivial(h)
					sig, detail = judgePC(pc, o)
				} else {
					switch {
					case o.Panic != "":
						sig, detail = "panic:"+normPanic(o.Panic), o.Panic
					case len(log.Calls) != 0:
						sig, detail = "host_called", fmt.Sprintf("host callbacks %v although the EVM is under pre-Berlin rules", log.Calls)
					case !o.OK || len(o.Ret) != 0:
						sig, detail = "not_an_empty_account", fmt.Sprintf("ok=%v ret=%x: before Berlin the address is a code-less account (call succeeds, no data)", o.OK, o.Ret)
					case o.HaveUsed && o.Used != 0:
						sig, detail = "fee_charged", fmt.Sprintf("%d gas used by a call to a code-less account", o.Used)
					}
				}
				if sig != "" {
					w.Violate(fmt.Sprintf("fork_crossing:%#x:%s", target, sig), detail+"\n"+cs.Note, map[string]any{"fork_crossing": true})
				}
			}
		}
	}
}

func c14Bound(tier string) int {
	if tier == "thorough" {
		return 4
	}
	return 2
}

func init() {
	register(&Check{
		ID:        "C14",
		Level:     "model_checking",
		Technique: "bounded exhaustive enumeration of precompile target x reach x fork x payload length x ABI head/length words (deviation-bounded) x host answer x gas, plus all ordered pairs of reaches as two-call histories, executed on the real code with recording host callbacks; oracle = reference ABI decoder with unbounded integers and pass-through/attribution rules",
		Rule: "cases = {0x64,0x65,0x66} x 12 reaches (CALL/CALLCODE/DELEGATECALL/STATICCALL opcodes from depth 1 and 2, 4 host entry points) x {Istanbul, Berlin, Shanghai} x 20 payload lengths x for 0x66 each of the 2 head and 2 length words from a 14-value boundary alphabet with <=k deviations from a well-formed layout x host answer {value, empty, error} x host gas {ample, 5000, 4999}; fork crossing = each precompile through 3 reaches on an EVM built on one side of the Berlin activation block and moved to the other with SetBlockContext; histories = all ordered pairs of reaches x {same EVM, fresh EVMs} with distinct callers. Oracle per case: fee 5000; exact host arguments; answer/error passed through; malformed/truncated payload rejected with an error and host not called; 0x66 write attributed to the contract whose call reached the precompile or refused. non-trivial = distinct cases in which the host callback was reached",
		Assumptions: []string{
			"0x65 payloads longer than 32 bytes are not judged (the statement does not determine which bytes are the hash)",
			"ABI word values outside the boundary alphabet are not covered",
		},
		Bounds: func(t string) map[string]any {
			return map[string]any{"abi_word_deviation_bound": c14Bound(t), "payload_lengths": len(gen.PayloadLengths), "reaches": len(gen.Reaches()), "forks": len(pcForks)}
		},
		Quick:    60 * time.Second,
		Thorough: 20 * time.Minute,
		Run: func(w *fw.W) {
			th := w.Thorough()
			if w.MineKey(fw.Hash("fork crossing")) {
				c14ForkCrossing(w)
			}
			mc.Explore(c14Bound(w.Tier), func(c *mc.Ctx) {
				pc := buildPC(c, th)
				if !w.Mine() {
					return
				}
				sig, detail, o := c14One(pc)
				w.Evals++
				w.Transitions++
				h := fw.Hash(pc.Case.Note, pc.Case.ForkName) ^ fw.HashBytes(pc.Case.Input)
				w.State(h)
				if len(o.Log.Calls) > 0 {
					w.Nontrivial(h)
				}
				if detail == "unjudged" {
					w.Skipped++
				}
				if w.Evals%40009 == 1 {
					w.Sample(map[string]any{"note": pc.Case.Note, "fork": pc.Case.ForkName, "payload": fmt.Sprintf("%x", []byte(pc.Case.Input)), "host_calls": o.Log.Calls, "ok": o.OK})
				}
				if sig != "" {
					for i := 0; i < 4; i++ {
						if s2, _, _ := c14One(pc); s2 != sig {
							w.Notes = append(w.Notes, "UNREPRODUCED: C14 violation did not reproduce: "+pc.Case.Note)
							return
						}
					}
					w.Violate(sig, detail+"\n"+pc.Case.Note, map[string]any{"single": pc})
				}
			}, func() bool { return w.Expired() })
			// histories
			payload := func() []byte {
				var out []byte
				mc.Replay(nil, func(c *mc.Ctx) { out = gen.ExplorePayload66(c, 192) })
				return out
			}()
			reaches := gen.Reaches()
			for _, f := range []world.Fork{world.Berlin, world.Shanghai} {
				for _, r1 := range reaches {
					for _, r2 := range reaches {
						for _, same := range []bool{true, false} {
							if !w.Mine() {
								continue
							}
							mk := func(r gen.Reach, alt bool) *pcCase {
								cs, caller := gen.PrecompileCase(f, 0x66, r, payload, 200000, alt)
								cs.Note = fmt.Sprintf("PC history target=0x66 reach=%s alt=%v", r, alt)
								return &pcCase{Case: cs, Target: 0x66, Reach: r, Caller: caller}
							}
							p := &c14PairCase{First: mk(r1, false), Second: mk(r2, true), SameEVM: same}
							if same {
								// one world for both calls: (T, U) carry the first reach's code, (T2, U2) the second's
								n := len(p.Second.Case.Accounts)
								accs := append([]world.Account{}, p.First.Case.Accounts...)
								accs[n-2], accs[n-1] = p.Second.Case.Accounts[n-2], p.Second.Case.Accounts[n-1]
								p.First.Case.Accounts, p.Second.Case.Accounts = accs, accs
							}
							sig, detail := c14RunPair(p)
							w.Evals += 2
							w.Transitions += 2
							w.Extra("histories", 1)
							h := fw.Hash("pair", r1.String(), r2.String(), f.String(), fmt.Sprint(same))
							w.State(h)
							w.Nontrivial(h)
							if sig != "" {
								for i := 0; i < 4; i++ {
									if s2, _ := c14RunPair(p); s2 != sig {
										w.Notes = append(w.Notes, "UNREPRODUCED: C14 history violation did not reproduce")
										return
									}
								}
								w.Violate(sig, detail, map[string]any{"pair": p})
							}
						}
					}
				}
			}
		},
		Replay: func(raw json.RawMessage) []fw.Violation {
			var r struct {
				Single *pcCase      `json:"single"`
				Pair   *c14PairCase `json:"pair"`
			}
			if err := json.Unmarshal(raw, &r); err != nil {
				panic(err)
			}
			var sig, detail string
			switch {
			case r.Single != nil:
				sig, detail, _ = c14One(r.Single)
			case r.Pair != nil:
				sig, detail = c14RunPair(r.Pair)
			default:
				panic("bad replay case")
			}
			if sig == "" {
				return nil
			}
			return []fw.Violation{{Sig: sig, Detail: detail, Case: raw}}
		},
	})
}
