package checks

import (
	"fmt"
	"strings"

	avm "github.com/artela-network/artela-evm/vm"
	"verif/asm"
	"verif/gen"
	"verif/world"
)

func depthLimitRun(f world.Fork) (sig, detail string) {
	// JUMPDEST ; CALL(GAS, ADDRESS, 0, 0, 0, 0, 0) ; POP ; STOP
	code := asm.New().Op(asm.JUMPDEST).Push(0).Push(0).Push(0).Push(0).Push(0).Op(asm.ADDRESS, asm.GAS, asm.CALL, asm.POP, asm.STOP).Bytes()
	cs := gen.StdCase(f, code, "call", 1<<62)
	rec := &world.ARec{Rec: world.Rec{NoData: true}}
	env := world.NewA(cs, world.AOpts{Tracer: rec})
	_, _, _, err, p := env.Call(cs)
	if p != "" {
		return "panic", p
	}
	if err != nil {
		return "harness", "recursion program failed: " + err.Error()
	}
	attempts, entered := 1, 0
	for _, l := range rec.Lines {
		switch {
		case strings.HasPrefix(l, "S ") && strings.Contains(l, " op=f1 ") && strings.HasSuffix(l, "err=-"):
			attempts++
		case strings.HasPrefix(l, "B ") || strings.HasPrefix(l, "> "):
			entered++
		}
	}
	if attempts != entered+1 || entered < 1024 {
		return "harness", fmt.Sprintf("attempts=%d entered=%d", attempts, entered)
	}
	ct := env.EVM.Tracer().CallTree()
	if ct.Current() != nil {
		return "open_call", "call-tree cursor not nil after the recursion returned"
	}
	for i := 0; i < attempts; i++ {
		c := ct.FindCall(uint64(i))
		if c == nil {
			return "missing_attempt", fmt.Sprintf("attempt %d of %d (the last one is refused by the depth limit) is not in the call tree", i, attempts)
		}
		if c.Index != uint64(i) {
			return "index", fmt.Sprintf("FindCall(%d).Index == %d", i, c.Index)
		}
		if i > 0 {
			if c.Parent == nil || c.Parent.Index != uint64(i-1) {
				return "parent", fmt.Sprintf("node %d: parent %v, expected %d", i, c.Parent, i-1)
			}
			if c.From != gen.T || c.To == nil || *c.To != gen.T {
				return "endpoints", fmt.Sprintf("node %d: from %x to %v", i, c.From, c.To)
			}
		}
		if i == attempts-1 {
			if c.Err != avm.ErrDepth {
				return "refusal_error", fmt.Sprintf("the refused attempt %d records error %v, expected the depth error", i, c.Err)
			}
			if c.Gas == nil || c.RemainingGas != c.Gas.Uint64() {
				return "refusal_gas", fmt.Sprintf("the refused attempt %d was given %v gas and records %d handed back", i, c.Gas, c.RemainingGas)
			}
			if len(c.Children) != 0 {
				return "refusal_children", "the refused attempt has children"
			}
		} else if c.Err != nil {
			return "error", fmt.Sprintf("node %d records error %v", i, c.Err)
		} else if len(c.Children) != 1 {
			return "children", fmt.Sprintf("node %d has %d children, expected 1", i, len(c.Children))
		}
	}
	if ct.FindCall(uint64(attempts)) != nil {
		return "extra_node", fmt.Sprintf("a node %d exists beyond the %d attempts", attempts, attempts)
	}
	return "", ""
}
