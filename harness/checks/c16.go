package checks

import (
	"encoding/json"
	"fmt"
	"sort"
	"strings"
	"time"

	avm "github.com/artela-network/artela-evm/vm"
	"github.com/ethereum/go-ethereum/common"
	"github.com/holiman/uint256"
	"verif/asm"
	"verif/fw"
	"verif/gen"
	"verif/maphook"
	"verif/mc"
	"verif/world"
)

// C16 — equal executions produce byte-identical results and tracer views.

type c16Tx struct {
	Name  string
	Case  *world.Case
	Names []string // registered top-level variable names to query
	Idx   [][]byte // index keys registered under Names[0]
}

func emitJ(a *asm.P, s gen.JStep) {
	for i := len(s.Operands) - 1; i >= 0; i-- {
		a.PushU(s.Operands[i])
	}
	a.Op(s.Op)
}

func mstoreStr(a *asm.P, off uint64, s string) {
	for _, w := range gen.StrWords(off, []byte(s)) {
		a.Push32(w.Word).Push(w.Off).Op(asm.MSTORE)
	}
}

// c16Recorder builds a transaction that registers nVars top-level variables and nIdx members under the first one
// (a mapping), journals values for them, and makes nCalls nested calls that journal again (several change indices).
func c16Recorder(f world.Fork, nVars, nIdx, nCalls int) c16Tx {
	return c16RecorderP(f, nVars, nIdx, nCalls, false)
}

// c16RecorderP: with packed set, the members share storage slots (four 8-byte fields per slot at offsets 0/8/16/24),
// so that neither the slot nor the offset alone identifies a child.
func c16RecorderP(f world.Fork, nVars, nIdx, nCalls int, packed bool) c16Tx {
	a := asm.New()
	tx := c16Tx{Name: fmt.Sprintf("recorder(vars=%d,idx=%d,calls=%d,packed=%v)", nVars, nIdx, nCalls, packed)}
	A, B := gen.TypeA, gen.TypeB
	// top-level variables v0..: v0 is a mapping at slot 0x40 (reference type B), others value variables at slots 0x50+i
	for i := 0; i < nVars; i++ {
		name := fmt.Sprintf("v%d", i)
		tx.Names = append(tx.Names, name)
		mstoreStr(a, 0x200, name)
		if i == 0 {
			emitJ(a, gen.RegisterRefVar(0x200, uint256.NewInt(0x40), B))
		} else {
			slot := uint256.NewInt(uint64(0x50 + i))
			emitJ(a, gen.RegisterValueVar(0x200, slot, 0, A))
			a.Push(uint64(0x1000 + i)).PushU(slot).Op(asm.SSTORE)
			emitJ(a, gen.ValueJournal(slot, uint256.NewInt(0), uint256.NewInt(32), A))
		}
	}
	// members of the mapping: value-typed index keys k = 1..nIdx at slots 0x100+k
	for k := 1; k <= nIdx; k++ {
		slot := uint256.NewInt(uint64(0x100 + k))
		off, width := uint256.NewInt(0), uint256.NewInt(32)
		if packed {
			// keys ascend while slots descend, so that an order by slot differs from the order by key
			slot = uint256.NewInt(uint64(0x100 + (nIdx-k)/4))
			off, width = uint256.NewInt(uint64(8*((k-1)%4))), uint256.NewInt(8)
		}
		key := uint256.NewInt(uint64(k))
		kb := key.Bytes32()
		tx.Idx = append(tx.Idx, kb[:])
		emitJ(a, gen.JStep{Op: asm.IVVVJNAL, Operands: []*uint256.Int{uint256.NewInt(0x40), slot, key, off, u256(A), u256(B)}})
		a.Push(uint64(0x2000 + k)).PushU(slot).Op(asm.SSTORE)
		emitJ(a, gen.ValueJournal(slot, off, width, A))
	}
	// nested calls to a callee that journals its own variable under its own call index; plus calls to CWrite
	for c := 0; c < nCalls; c++ {
		a.Push(0).Push(0).Push(0).Push(0).Push(0).PushAddr(gen.CWrite).Push(60000).Op(asm.CALL, asm.POP)
		slot := uint256.NewInt(uint64(0x51))
		a.Push(uint64(0x3000 + c)).PushU(slot).Op(asm.SSTORE)
		if nVars > 1 {
			emitJ(a, gen.ValueJournal(slot, uint256.NewInt(0), uint256.NewInt(32), A))
		}
	}
	a.Push(1).Push(0).Op(asm.MSTORE).Push(32).Push(0).Op(asm.RETURN)
	tx.Case = gen.StdCase(f, a.Bytes(), "call", 3_000_000)
	tx.Case.Note = tx.Name
	return tx
}

// c16Txs is the set T of transactions chosen to touch every package-level value of the vm package.
func c16Txs() []c16Tx {
	f := world.Shanghai
	var out []c16Tx
	out = append(out, c16Recorder(f, 3, 2, 1))
	// reference journals over short / empty / long strings (shared 256-bit constants of the decoder)
	for _, l := range []int{0, 1, 5, 31, 40} {
		a := asm.New()
		mstoreStr(a, 0x200, "s")
		emitJ(a, gen.RegisterRefVar(0x200, uint256.NewInt(7), gen.TypeA))
		emitJ(a, gen.RefJournal(uint256.NewInt(7), gen.TypeA))
		mstoreStr(a, 0x200, "t")
		emitJ(a, gen.RegisterRefVar(0x200, uint256.NewInt(9), gen.TypeA))
		emitJ(a, gen.RefJournal(uint256.NewInt(9), gen.TypeA))
		a.Push(1).Push(0).Op(asm.MSTORE).Push(32).Push(0).Op(asm.RETURN)
		cs := gen.StdCase(f, a.Bytes(), "call", 1_000_000)
		st := map[common.Hash]common.Hash{}
		for k, v := range gen.EncodeString(uint256.NewInt(7), gen.PatternBytes(l)) {
			st[k] = v
		}
		for k, v := range gen.EncodeString(uint256.NewInt(9), gen.PatternBytes(3)) {
			st[k] = v
		}
		cs.Accounts[1].Storage = st
		cs.Note = fmt.Sprintf("refjournal(len=%d)", l)
		out = append(out, c16Tx{Name: cs.Note, Case: cs, Names: []string{"s", "t"}})
	}
	// arithmetic touching the interpreter's shared big constants, shifts, sign extension, EXP, ADDMOD
	ar := asm.New()
	for _, op := range []byte{asm.EXP, asm.SDIV, asm.SMOD, asm.SIGNEXTEND, asm.SAR, asm.BYTE, asm.SHL} {
		ar.Push32(gen.Pattern).Push(3).Op(op).Push(0).Op(asm.MSTORE)
	}
	ar.Push(7).Push32(gen.Pattern).Push32(gen.Pattern).Op(asm.ADDMOD).Push(7).Push32(gen.Pattern).Push(5).Op(asm.MULMOD).Op(asm.ADD).Push(0).Op(asm.MSTORE).Push(32).Push(0).Op(asm.RETURN)
	cs := gen.StdCase(f, ar.Bytes(), "call", 1_000_000)
	cs.Note = "arithmetic"
	out = append(out, c16Tx{Name: cs.Note, Case: cs})
	// precompiles, nested calls, create, logs, selfdestruct
	pc := asm.New()
	for _, addr := range []byte{1, 2, 3, 4, 5, 6, 7, 9} {
		pc.Push(32).Push(0x100).Push(0x80).Push(0).Push(0).PushAddr(gen.PrecompileAddr(addr)).Push(100000).Op(asm.CALL, asm.POP)
	}
	pc.Push(0).Push(0).Push(0).Push(0).Push(0).PushAddr(gen.CDie).Push(60000).Op(asm.CALL, asm.POP)
	pc.Push(0xaa).Push(0).Push(0).Op(asm.LOG1).Push(0).Push(0).Push(0).Op(asm.CREATE, asm.POP)
	pc.Push(32).Push(0x100).Op(asm.RETURN)
	cs = gen.StdCase(f, pc.Bytes(), "call", 3_000_000)
	cs.Note = "precompiles+create"
	out = append(out, c16Tx{Name: cs.Note, Case: cs})
	// extra-EIP table on London next to a plain London program (shared instruction tables)
	p0 := asm.New().Op(asm.PUSH0).Push(0).Op(asm.MSTORE).Push(32).Push(0).Op(asm.RETURN).Bytes()
	cs = gen.StdCase(world.London, p0, "call", 100000)
	cs.ExtraEips = []int{3855}
	cs.Note = "london+eip3855"
	out = append(out, c16Tx{Name: cs.Note, Case: cs})
	cs = gen.StdCase(world.London, p0, "call", 100000)
	cs.ExtraEips = []int{9999, 3855}
	cs.Note = "london+{9999,3855}"
	out = append(out, c16Tx{Name: cs.Note, Case: cs})
	cs = gen.StdCase(world.London, p0, "call", 100000)
	cs.Note = "london plain (PUSH0 invalid)"
	out = append(out, c16Tx{Name: cs.Note, Case: cs})
	// EIPs that reprice instructions in place (not only add one), each on the fork before its activation, next to
	// the same program on the plain fork: an instruction table shared between configurations shows as a gas change
	rp := asm.New().Push(0).Op(asm.SLOAD, asm.POP).Push(7).Push(1).Op(asm.SSTORE).Push(0).Push(1).Op(asm.SSTORE)
	rp.PushAddr(gen.CRet).Op(asm.BALANCE, asm.POP).PushAddr(gen.CRet).Op(asm.EXTCODEHASH, asm.POP)
	rp.Push(64).Push(0).Push(0).Op(asm.CREATE, asm.POP)
	rp.Op(asm.GAS).Push(0).Op(asm.MSTORE).Push(32).Push(0).Op(asm.RETURN)
	for _, e := range []struct {
		eip  int
		fork world.Fork
	}{{1884, world.Petersburg}, {2200, world.Petersburg}, {2929, world.Istanbul}, {3529, world.Berlin}, {3860, world.London}} {
		cs = gen.StdCase(e.fork, rp.Bytes(), "call", 500000)
		cs.ExtraEips = []int{e.eip}
		cs.Note = fmt.Sprintf("repriced ops on %s+eip%d", e.fork, e.eip)
		out = append(out, c16Tx{Name: cs.Note, Case: cs})
		cs = gen.StdCase(e.fork, rp.Bytes(), "call", 500000)
		cs.Note = fmt.Sprintf("repriced ops on plain %s (next to eip%d)", e.fork, e.eip)
		out = append(out, c16Tx{Name: cs.Note, Case: cs})
	}
	// context-write precompile: a direct CALL from one contract, a STATICCALL / DELEGATECALL from another
	var payload []byte
	mc.Replay(nil, func(c *mc.Ctx) { payload = gen.ExplorePayload66(c, 192) })
	for _, r := range []gen.Reach{{Kind: "call", Depth: 1}, {Kind: "staticcall", Depth: 2}, {Kind: "delegatecall", Depth: 1}} {
		cs, _ := gen.PrecompileCase(world.Shanghai, 0x66, r, payload, 200000, r.Kind != "call")
		cs.Note = "ctxwrite " + r.String()
		out = append(out, c16Tx{Name: cs.Note, Case: cs})
	}
	// value transfers at the top level and in nested calls
	vt := asm.New().Push(0).Push(0).Push(0).Push(0).Push(5).PushAddr(gen.EOA).Push(30000).Op(asm.CALL, asm.POP)
	vt.Push(0).Push(0).Push(0).Push(0).Push(3).PushAddr(gen.CWrite).Push(60000).Op(asm.CALL, asm.POP)
	vt.PushAddr(gen.EOA).Op(asm.BALANCE).Push(0).Op(asm.MSTORE).Push(32).Push(0).Op(asm.RETURN)
	cs = gen.StdCase(f, vt.Bytes(), "call", 300000)
	cs.Value = world.Big(7)
	cs.Note = "value transfers"
	out = append(out, c16Tx{Name: cs.Note, Case: cs})
	// Cancun: transient storage and MCOPY
	cn := asm.New().Push(5).Push(1).Op(asm.TSTORE).Push(1).Op(asm.TLOAD).Push(0).Op(asm.MSTORE).Push(32).Push(0).Push(64).Op(asm.MCOPY).Push(96).Push(0).Op(asm.RETURN).Bytes()
	cs = gen.StdCase(world.Cancun, cn, "call", 100000)
	cs.Note = "cancun"
	out = append(out, c16Tx{Name: cs.Note, Case: cs})
	return out
}

// c16Serialize renders everything a replica or an Aspect could read after the transaction, lists in returned order.
// on runs a query of the code under test with the map-iteration hook active (the harness's own rendering, which
// ranges over maps too, runs with the hook off).
func c16Serialize(env *world.AEnv, obs *world.Obs, tx *c16Tx, on func(func())) string {
	if on == nil {
		on = func(f func()) { f() }
	}
	var sb strings.Builder
	sb.WriteString(obs.Key())
	sb.WriteString("\nerr=" + obs.Err + "\n")
	tr := env.EVM.Tracer()
	sc := tr.StateChanges()
	ct := tr.CallTree()
	for i := uint64(0); ; i++ {
		c := ct.FindCall(i)
		if c == nil {
			break
		}
		to := "nil"
		if c.To != nil {
			to = c.To.Hex()
		}
		var kids []uint64
		on(func() {
			for _, k := range ct.ChildrenOf(i) {
				kids = append(kids, k.Index)
			}
		})
		fmt.Fprintf(&sb, "call %d from=%x to=%s gas=%v left=%d data=%x ret=%x err=%v parent=%d children=%v childrenOf=%v\n", i, c.From[:], to, c.Gas, c.RemainingGas, c.Data, c.Ret, c.Err, c.ParentIndex(), c.ChildrenIndices(), kids)
	}
	for _, name := range tx.Names {
		var k *avm.StorageKey
		on(func() { k = sc.FindKeyIndices(gen.T, name) })
		if k == nil {
			fmt.Fprintf(&sb, "var %s: nil\n", name)
			continue
		}
		fmt.Fprintf(&sb, "var %s slot=%s off=%d", name, k.Slot().Hex(), k.Offset())
		var ch map[uint64][][]byte
		on(func() {
			if v := sc.Variable(gen.T, name); v != nil {
				ch = v.Changes()
			}
		})
		fmt.Fprintf(&sb, " changes={%s}", renderChanges(ch))
		var ci, ioc [][]byte
		var kids []*avm.StorageKey
		on(func() { ci, ioc, kids = k.ChildrenIndices(), sc.IndicesOfChanges(gen.T, name), k.Children() })
		fmt.Fprintf(&sb, " childIndices=%x indicesOfChanges=%x children=[", ci, ioc)
		for _, c := range kids {
			fmt.Fprintf(&sb, "%s/%d,", c.Slot().Hex(), c.Offset())
		}
		sb.WriteString("]\n")
		for _, ix := range tx.Idx {
			var ch map[uint64][][]byte
			on(func() {
				if v := sc.Variable(gen.T, name, ix); v != nil {
					ch = v.Changes()
				}
			})
			if ch != nil {
				fmt.Fprintf(&sb, "  %s[%x] changes={%s}\n", name, trimLeft(ix), renderChanges(ch))
			}
		}
	}
	for _, a := range []common.Address{world.Origin, gen.T, gen.CWrite, gen.CDie} {
		var ch map[uint64][][]byte
		on(func() {
			if b := sc.Balance(a); b != nil {
				ch = b.Changes()
			}
		})
		if ch != nil {
			fmt.Fprintf(&sb, "balance %x {%s}\n", a[16:], renderChanges(ch))
		}
	}
	sb.WriteString(sc.VerifDump())
	sb.WriteString(ct.VerifDump())
	return sb.String()
}

// hook plumbing: while active, every map iteration started by the code under test is a Deviate(8).
var c16Ctx *mc.Ctx

func c16WithHook(c *mc.Ctx, fn func()) {
	c16Ctx = c
	defer func() { c16Ctx = nil }()
	fn()
}

func c16Run(tx *c16Tx, c *mc.Ctx, hookExec bool) string {
	env := world.NewA(tx.Case, world.AOpts{})
	var obs *world.Obs
	if hookExec && c != nil {
		c16WithHook(c, func() { obs = env.Invoke(tx.Case) })
	} else {
		obs = env.Invoke(tx.Case)
	}
	if obs.Panic != "" {
		return "panic: " + obs.Panic
	}
	if c != nil {
		return c16Serialize(env, obs, tx, func(f func()) { c16WithHook(c, f) })
	}
	return c16Serialize(env, obs, tx, nil)
}

func firstDiffLine(a, b string) string {
	la, lb := strings.Split(a, "\n"), strings.Split(b, "\n")
	for i := 0; i < len(la) && i < len(lb); i++ {
		if la[i] != lb[i] {
			x, y := la[i], lb[i]
			if len(x) > 300 {
				x = x[:300]
			}
			if len(y) > 300 {
				y = y[:300]
			}
			return fmt.Sprintf("line %d\n  one run:     %s\n  another run: %s", i, x, y)
		}
	}
	return fmt.Sprintf("lengths %d vs %d lines", len(la), len(lb))
}

func diffClass(d string) string {
	switch {
	case strings.Contains(d, "childIndices=") || strings.Contains(d, "children="):
		return "query_order"
	case strings.HasPrefix(strings.TrimSpace(strings.SplitN(d, "\n", 3)[1]), "one run:     call "):
		return "call_tree"
	case strings.Contains(d, "changes="):
		return "journal"
	case strings.Contains(d, "ret="):
		return "result"
	}
	return "view"
}

type c16Replay struct {
	Kind    string `json:"kind"` // maporder | history | isolation
	Tx      int    `json:"tx,omitempty"`
	Choices []int  `json:"choices,omitempty"`
	Seq     []int  `json:"seq,omitempty"`
	Exec    bool   `json:"hook_exec,omitempty"`
}

func c16MapOrderTxs(thorough bool) []c16Tx {
	f := world.Shanghai
	out := []c16Tx{c16Recorder(f, 3, 2, 1), c16Recorder(f, 6, 5, 2), c16Recorder(f, 2, 8, 3), c16RecorderP(f, 2, 6, 1, true)}
	if thorough {
		out = append(out, c16Recorder(f, 8, 3, 4), c16Recorder(world.Byzantium, 4, 4, 2))
	}
	return out
}

func init() {
	maphook.Set(func() uint64 {
		if c := c16Ctx; c != nil {
			c16Ctx = nil // the explorer itself must not re-enter the hook
			v := uint64(c.Deviate(8))
			c16Ctx = c
			return v
		}
		return 0
	})
	register(&Check{
		ID:        "C16",
		Level:     "model_checking",
		Technique: "exhaustive enumeration of Go map-iteration start offsets (a seam put into the runtime by a build overlay; every `range` over a map executed by the code under test is a choice point, deviation-bounded) during execution and during every recorder query; exhaustive enumeration of transaction histories (all sequences up to length 3 over a transaction set touching every package-level value) and of two-EVM invocation interleavings; canonical serialisations with lists in returned order must be identical",
		Rule: "(a) map order: recorder transactions creating 2-8 children / index keys / change indices per node (one with members packed four to a storage slot); all executions with <= 1 non-zero iteration offset during the EVM execution and all with <= 2 during the queries (Children, ChildrenIndices, IndicesOfChanges, Changes, ChildrenOf, balances, call tree); serialisation identical across all offset vectors. (b) histories: T = 28 transactions (recorder, reference journals over empty/short/long strings, arithmetic over the shared constants, precompiles + CREATE + SELFDESTRUCT + LOG, extra-EIP and plain London tables, five repricing EIPs each next to the plain fork, Cancun additions); every sequence over T of length <= L in one process, each element on a fresh EVM and equal pre-state: every transaction has exactly one serialisation across all contexts. (c) isolation: two live EVMs, 2 invocations each, all 6 interleavings: each EVM's views equal its solo views. (d) copies: every transaction on three copies of one live template state serialises as on a state built from scratch, and the template reads the same afterwards. non-trivial = distinct executions in which a map with >= 2 entries was iterated with a non-zero offset, or histories of length >= 2",
		Assumptions: []string{"maps with more than 8 entries (more than one bucket) are outside the enumerated offsets", "requires the vcheck-map binary (runtime overlay); without it only (b) and (c) run and the evidence says so"},
		Bounds: func(t string) map[string]any {
			return map[string]any{"exec_offset_deviation_bound": 1, "query_offset_deviation_bound": 2, "history_length": map[string]int{"quick": 3, "thorough": 4}[t], "transactions": len(c16Txs()), "map_hook": maphook.Enabled}
		},
		Quick:    80 * time.Second,
		Thorough: 30 * time.Minute,
		Run: func(w *fw.W) {
			txs := c16Txs()
			// (b) histories first: they need the process in the state other executions leave it in
			L := 3
			if w.Thorough() {
				L = 4
			}
			seen := make([]map[string]string, len(txs)) // serialisation -> context
			for i := range seen {
				seen[i] = map[string]string{}
			}
			gen.ForEachSeq(len(txs), L, func(seq []int) {
				if len(seq) == 0 || w.Expired() {
					return
				}
				// every worker runs every history: the property is about one process
				if len(seq) >= 2 && w.N > 1 && int(fw.Hash(fmt.Sprint(seq))%uint64(w.N)) != w.Idx {
					return
				}
				for pos, ti := range seq {
					s := c16Run(&txs[ti], nil, false)
					w.Evals++
					w.Transitions++
					ctx := fmt.Sprintf("%v@%d", seq, pos)
					h := fw.Hash("hist", fmt.Sprint(seq))
					w.State(h)
					if len(seq) >= 2 {
						w.Nontrivial(h)
					}
					if _, ok := seen[ti][s]; !ok {
						seen[ti][s] = ctx
						if len(seen[ti]) > 1 {
							var first, firstCtx string
							for k, v := range seen[ti] {
								if k != s {
									first, firstCtx = k, v
								}
							}
							d := firstDiffLine(first, s)
							w.Violate("history:"+diffClass(d), fmt.Sprintf("transaction %q gives different results in different histories of one process (%s vs %s): %s", txs[ti].Name, firstCtx, ctx, d), c16Replay{Kind: "history", Seq: seq})
						}
					}
				}
			})
			w.Extra("histories", 1)
			// (c) isolation
			if w.MineKey(fw.Hash("isolation")) {
				c16Isolation(w, txs)
			}
			// (d) copies of one template state
			if w.MineKey(fw.Hash("copies")) {
				c16Copies(w, txs)
			}
			// (a) map order
			if !maphook.Enabled {
				w.Notes = append(w.Notes, "map hook not built in: family (a) skipped")
				return
			}
			for ti, tx := range c16MapOrderTxs(w.Thorough()) {
				tx := tx
				for _, hookExec := range []bool{false, true} {
					bound := 2
					if hookExec {
						bound = 1
					}
					base := ""
					mc.Explore(bound, func(c *mc.Ctx) {
						s := c16Run(&tx, c, hookExec)
						if !w.MineKey(fw.Hash(fmt.Sprint(c.Choices()))) && base != "" {
							return
						}
						w.Evals++
						w.Transitions += int64(len(c.Choices()))
						h := fw.Hash("map", tx.Name, fmt.Sprint(c.Choices()))
						w.State(h)
						if c.Cost() > 0 {
							w.Nontrivial(h)
						}
						if base == "" {
							base = s
							w.Extra("map_iterations_in_default_run", int64(len(c.Choices())))
							w.Sample(map[string]any{"tx": tx.Name, "map_iterations": len(c.Choices()), "hook_during_execution": hookExec})
							return
						}
						if s != base {
							d := firstDiffLine(base, s)
							w.Violate("maporder:"+diffClass(d), fmt.Sprintf("%s: with map-iteration offsets %v the views differ from the all-zero offsets: %s", tx.Name, c.Choices(), d), c16Replay{Kind: "maporder", Tx: ti, Choices: c.Choices(), Exec: hookExec})
						}
					}, func() bool { return w.Expired() })
				}
			}
		},
		Replay: func(raw json.RawMessage) []fw.Violation {
			var rp c16Replay
			if err := json.Unmarshal(raw, &rp); err != nil {
				panic(err)
			}
			txs := c16Txs()
			switch rp.Kind {
			case "maporder":
				tx := c16MapOrderTxs(true)[rp.Tx]
				var base, s string
				mc.Replay(nil, func(c *mc.Ctx) { base = c16Run(&tx, c, rp.Exec) })
				mc.Replay(rp.Choices, func(c *mc.Ctx) { s = c16Run(&tx, c, rp.Exec) })
				if s != base {
					d := firstDiffLine(base, s)
					return []fw.Violation{{Sig: "maporder:" + diffClass(d), Detail: d, Case: raw}}
				}
			case "history":
				var sers []string
				for _, ti := range rp.Seq {
					sers = append(sers, c16Run(&txs[ti], nil, false))
				}
				for i, ti := range rp.Seq {
					// compare with a second run of the same history: a transaction must serialise identically
					if s2 := c16Run(&txs[ti], nil, false); s2 != sers[i] {
						d := firstDiffLine(sers[i], s2)
						return []fw.Violation{{Sig: "history:" + diffClass(d), Detail: d, Case: raw}}
					}
				}
			case "copies", "isolation":
				tmp := fw.NewW("C16", 0, 1, "quick", 1)
				if rp.Kind == "copies" {
					c16Copies(tmp, txs)
				} else {
					c16Isolation(tmp, txs)
				}
				return tmp.Violations
			}
			return nil
		},
	})
}

// c16Isolation: two live EVMs, two invocations each, every interleaving; each EVM's recorder must show only its own calls.
// c16Copies: equal pre-states obtained the way a node obtains them - as copies of one live template state. Three
// executions on three copies and one on a state built from scratch must serialise identically, and the template must
// read the same before and after.
func c16Copies(w *fw.W, txs []c16Tx) {
	for ti := range txs {
		tx := &txs[ti]
		tmpl := world.NewState(tx.Case)
		probe := func() string {
			var sb strings.Builder
			for _, a := range tx.Case.Accounts {
				fmt.Fprintf(&sb, "%x:%s:%d ", a.Addr[18:], tmpl.GetBalance(a.Addr), tmpl.GetNonce(a.Addr))
			}
			return sb.String()
		}
		before := probe()
		fresh := c16Run(tx, nil, false)
		for i := 0; i < 3; i++ {
			env := world.NewAOn(tx.Case, world.AOpts{}, tmpl.Copy())
			obs := env.Invoke(tx.Case)
			got := "panic: " + obs.Panic
			if obs.Panic == "" {
				got = c16Serialize(env, obs, tx, nil)
			}
			w.Evals++
			w.Transitions++
			h := fw.Hash("copies", tx.Name, fmt.Sprint(i))
			w.State(h)
			w.Nontrivial(h)
			if got != fresh {
				d := firstDiffLine(fresh, got)
				w.Violate("copies:"+diffClass(d), fmt.Sprintf("transaction %q on copy %d of a template state differs from its execution on a state built from scratch: %s", tx.Name, i+1, d), c16Replay{Kind: "copies"})
				break
			}
		}
		if after := probe(); after != before {
			w.Violate("copies:template_changed", fmt.Sprintf("executing %q on copies changed the template state they were copied from\nbefore: %s\nafter:  %s", tx.Name, before, after), c16Replay{Kind: "copies"})
		}
	}
	w.Extra("copy_runs", int64(3*len(txs)))
}

func c16Isolation(w *fw.W, txs []c16Tx) {
	pairs := [][2]int{{0, 1}, {0, 0}, {1, 6}, {7, 0}}
	orders := [][]int{{0, 0, 1, 1}, {0, 1, 0, 1}, {0, 1, 1, 0}, {1, 0, 0, 1}, {1, 0, 1, 0}, {1, 1, 0, 0}}
	solo := func(tx *c16Tx) string {
		env := world.NewA(tx.Case, world.AOpts{})
		var obs *world.Obs
		for i := 0; i < 2; i++ {
			ret, _, gas, err, p := env.Call(tx.Case)
			obs = &world.Obs{Ret: ret, Gas: gas, Panic: p, Class: world.ErrClass(err)}
		}
		return c16Serialize(env, obs, tx, nil)
	}
	for _, pr := range pairs {
		a, b := &txs[pr[0]], &txs[pr[1]]
		want := [2]string{solo(a), solo(b)}
		for _, ord := range orders {
			envs := [2]*world.AEnv{world.NewA(a.Case, world.AOpts{}), world.NewA(b.Case, world.AOpts{})}
			cases := [2]*c16Tx{a, b}
			var last [2]*world.Obs
			for _, who := range ord {
				ret, _, gas, err, p := envs[who].Call(cases[who].Case)
				last[who] = &world.Obs{Ret: ret, Gas: gas, Panic: p, Class: world.ErrClass(err)}
			}
			w.Evals += 2
			w.Transitions += 4
			h := fw.Hash("iso", fmt.Sprint(pr, ord))
			w.State(h)
			w.Nontrivial(h)
			for i := 0; i < 2; i++ {
				if got := c16Serialize(envs[i], last[i], cases[i], nil); got != want[i] {
					d := firstDiffLine(want[i], got)
					w.Violate("isolation:"+diffClass(d), fmt.Sprintf("EVM %d (%s) interleaved as %v with another EVM (%s) shows other views than alone: %s", i, cases[i].Name, ord, cases[1-i].Name, d), c16Replay{Kind: "isolation"})
				}
			}
		}
	}
	w.Extra("isolation_interleavings", int64(len(pairs)*len(orders)))
}

var _ = sort.Strings
