package checks

import (
	"encoding/json"
	"fmt"
	"math/big"
	"os"
	"sort"
	"strconv"
	"strings"
	"time"

	atracers "github.com/artela-network/artela-evm/tracers"
	alogger "github.com/artela-network/artela-evm/tracers/logger"
	_ "github.com/artela-network/artela-evm/tracers/native"
	avm "github.com/artela-network/artela-evm/vm"
	"github.com/ethereum/go-ethereum/common"
	ethtypes "github.com/ethereum/go-ethereum/core/types"
	rvm "github.com/ethereum/go-ethereum/core/vm"
	rtracers "github.com/ethereum/go-ethereum/eth/tracers"
	rlogger "github.com/ethereum/go-ethereum/eth/tracers/logger"
	_ "github.com/ethereum/go-ethereum/eth/tracers/native"
	"verif/fw"
	"verif/gen"
	"verif/mc"
	"verif/scn"
	"verif/world"
)

// C18 — debug-tracer event stream and inherited tracers match the reference.

// tracerPair builds the same tracer for both VMs and renders their results.
type tracerPair struct {
	Name string
	NewA func(cs *world.Case) (avm.EVMLogger, func() string)
	NewR func(cs *world.Case) (rvm.EVMLogger, func() string)
}

func nativePair(name, cfg string) tracerPair {
	render := func(res json.RawMessage, err error) string {
		if err != nil {
			return "error: " + err.Error()
		}
		return string(res)
	}
	return tracerPair{
		Name: name + cfg,
		NewA: func(cs *world.Case) (avm.EVMLogger, func() string) {
			t, err := atracers.DefaultDirectory.New(name, &atracers.Context{}, json.RawMessage(cfg))
			if err != nil {
				panic(err)
			}
			return t, func() string { return render(t.GetResult()) }
		},
		NewR: func(cs *world.Case) (rvm.EVMLogger, func() string) {
			t, err := rtracers.DefaultDirectory.New(name, &rtracers.Context{}, json.RawMessage(cfg))
			if err != nil {
				panic(err)
			}
			return t, func() string { return render(t.GetResult()) }
		},
	}
}

func structPair(label string, a alogger.Config, r rlogger.Config) tracerPair {
	return tracerPair{
		Name: "structLogger" + label,
		NewA: func(cs *world.Case) (avm.EVMLogger, func() string) {
			cfg := a
			t := alogger.NewStructLogger(&cfg)
			return t, func() string {
				b, _ := json.Marshal(t.StructLogs())
				res, err := t.GetResult()
				return fmt.Sprintf("%s|%x|%v|%s|%v", b, t.Output(), t.Error(), res, err)
			}
		},
		NewR: func(cs *world.Case) (rvm.EVMLogger, func() string) {
			cfg := r
			t := rlogger.NewStructLogger(&cfg)
			return t, func() string {
				b, _ := json.Marshal(t.StructLogs())
				res, err := t.GetResult()
				return fmt.Sprintf("%s|%x|%v|%s|%v", b, t.Output(), t.Error(), res, err)
			}
		},
	}
}

func aclPair() tracerPair { return aclPairWith("accessListTracer", false) }

// aclPrev is a previous access list (second round of access-list creation): entries with storage keys for the sender,
// the recipient, a precompile and two other accounts, with keys the programs touch and keys they never touch.
func aclPrev(cs *world.Case) ethtypes.AccessList {
	k := func(v ...uint64) []common.Hash {
		var out []common.Hash
		for _, x := range v {
			out = append(out, common.BigToHash(new(big.Int).SetUint64(x)))
		}
		return out
	}
	return ethtypes.AccessList{
		{Address: cs.From, StorageKeys: k(1, 0x77)},
		{Address: cs.To, StorageKeys: k(0, 1, 0x78)},
		{Address: common.BytesToAddress([]byte{4}), StorageKeys: k(0x79)},
		{Address: gen.CWrite, StorageKeys: k(3, 0x7a)},
		{Address: gen.Absent},
		{Address: cs.From},
	}
}

func aclPairWith(name string, prev bool) tracerPair {
	return tracerPair{
		Name: name,
		NewA: func(cs *world.Case) (avm.EVMLogger, func() string) {
			pl := ethtypes.AccessList{}
			if prev {
				pl = aclPrev(cs)
			}
			t := alogger.NewAccessListTracer(pl, cs.From, cs.To, avm.ActivePrecompiles(world.Rules(cs.Fork)))
			return t, func() string { return renderACL(t.AccessList()) }
		},
		NewR: func(cs *world.Case) (rvm.EVMLogger, func() string) {
			pl := ethtypes.AccessList{}
			if prev {
				pl = aclPrev(cs)
			}
			t := rlogger.NewAccessListTracer(pl, cs.From, cs.To, avm.ActivePrecompiles(world.Rules(cs.Fork)))
			return t, func() string { return renderACL(t.AccessList()) }
		},
	}
}

// renderACL renders an access list in canonical order (both implementations build it from Go maps).
func renderACL(al ethtypes.AccessList) string {
	var lines []string
	for _, t := range al {
		var ks []string
		for _, k := range t.StorageKeys {
			ks = append(ks, k.Hex())
		}
		sort.Strings(ks)
		lines = append(lines, t.Address.Hex()+":"+strings.Join(ks, ","))
	}
	sort.Strings(lines)
	return strings.Join(lines, ";")
}

func c18Pairs() []tracerPair {
	return []tracerPair{
		structPair("{}", alogger.Config{}, rlogger.Config{}),
		structPair("{mem,ret}", alogger.Config{EnableMemory: true, EnableReturnData: true}, rlogger.Config{EnableMemory: true, EnableReturnData: true}),
		structPair("{nostack,nostorage}", alogger.Config{DisableStack: true, DisableStorage: true}, rlogger.Config{DisableStack: true, DisableStorage: true}),
		structPair("{limit1}", alogger.Config{Limit: 1}, rlogger.Config{Limit: 1}),
		structPair("{limit5,mem}", alogger.Config{Limit: 5, EnableMemory: true}, rlogger.Config{Limit: 5, EnableMemory: true}),
		aclPair(),
		aclPairWith("accessListTracer(previous list)", true),
		nativePair("prestateTracer", `{}`),
		nativePair("prestateTracer", `{"diffMode":true}`),
		nativePair("4byteTracer", `{}`),
		nativePair("callTracer", `{}`),
		nativePair("callTracer", `{"onlyTopCall":true}`),
		nativePair("callTracer", `{"withLog":true}`),
		nativePair("flatCallTracer", `{}`),
		nativePair("flatCallTracer", `{"convertParityErrors":true}`),
		nativePair("flatCallTracer", `{"includePrecompiles":true}`),
		nativePair("muxTracer", `{"callTracer":{"withLog":true},"4byteTracer":{},"prestateTracer":{}}`),
		nativePair("noopTracer", `{}`),
	}
}

type txLogger interface {
	CaptureTxStart(uint64)
	CaptureTxEnd(uint64)
}

// c18TracerDiff runs the case with the pair's tracer on both VMs and compares the rendered results.
func c18TracerDiff(s *world.Session, cs *world.Case, p tracerPair) string {
	rt, rres := p.NewR(cs)
	re := s.R(cs, world.ROpts{Tracer: rt})
	rt.(txLogger).CaptureTxStart(cs.Gas)
	_, _, rgas, _, rp := re.Call(cs)
	var rout string
	if rp == "" {
		rt.(txLogger).CaptureTxEnd(rgas)
		func() {
			defer func() {
				if x := recover(); x != nil {
					rp = fmt.Sprint(x)
				}
			}()
			rout = rres()
		}()
	}
	re.Release()
	if rp != "" {
		return "" // the reference itself crashed: outside the comparable domain
	}
	at, ares := p.NewA(cs)
	ae := s.A(cs, world.AOpts{Tracer: at})
	at.(txLogger).CaptureTxStart(cs.Gas)
	_, _, agas, _, ap := ae.Call(cs)
	var aout string
	if ap == "" {
		at.(txLogger).CaptureTxEnd(agas)
		func() {
			defer func() {
				if x := recover(); x != nil {
					ap = fmt.Sprint(x)
				}
			}()
			aout = ares()
		}()
	}
	ae.Release()
	if ap != "" {
		return "panic: " + ap
	}
	if rout != aout {
		i := 0
		for i < len(rout) && i < len(aout) && rout[i] == aout[i] {
			i++
		}
		lo := i - 60
		if lo < 0 {
			lo = 0
		}
		clipS := func(x string) string {
			hi := i + 120
			if hi > len(x) {
				hi = len(x)
			}
			if lo > len(x) {
				return ""
			}
			return x[lo:hi]
		}
		return fmt.Sprintf("results differ at byte %d\nreference: ...%s\n/repo:     ...%s", i, clipS(rout), clipS(aout))
	}
	return ""
}

// c18Balance checks that start/end and enter/exit are balanced and properly nested in an interleaved event log.
func c18Balance(events []string) string {
	var stack []byte
	aspect := 0
	for i, l := range events {
		switch {
		case strings.HasPrefix(l, "B "):
			if len(stack) != 0 {
				return fmt.Sprintf("event %d: start announced while %d frames are open", i, len(stack))
			}
			stack = append(stack, 'B')
		case strings.HasPrefix(l, "> "):
			if len(stack) == 0 {
				return fmt.Sprintf("event %d: enter outside a started execution", i)
			}
			stack = append(stack, '>')
		case strings.HasPrefix(l, "E "):
			if len(stack) != 1 || stack[0] != 'B' {
				return fmt.Sprintf("event %d: end with open frames %q", i, stack)
			}
			stack = stack[:0]
		case strings.HasPrefix(l, "< "):
			if len(stack) < 2 || stack[len(stack)-1] != '>' {
				return fmt.Sprintf("event %d: exit without a matching enter (open %q)", i, stack)
			}
			stack = stack[:len(stack)-1]
		case strings.HasPrefix(l, "S ") || strings.HasPrefix(l, "F "):
			if len(stack) == 0 {
				return fmt.Sprintf("event %d: instruction outside any frame", i)
			}
			d, _ := fieldOf(l, "d")
			if int(d) != len(stack) {
				return fmt.Sprintf("event %d: instruction at depth %d while %d frames are open", i, d, len(stack))
			}
		case strings.HasPrefix(l, "A> "):
			aspect++
		case strings.HasPrefix(l, "A< "):
			aspect--
			if aspect < 0 {
				return fmt.Sprintf("event %d: Aspect exit without enter", i)
			}
		}
	}
	if len(stack) != 0 {
		return fmt.Sprintf("%d frames left open at the end (%q)", len(stack), stack)
	}
	if aspect != 0 {
		return "Aspect enter/exit unbalanced"
	}
	return ""
}

type c18Replay struct {
	Case  *world.Case  `json:"case,omitempty"`
	Pair  int          `json:"pair"`
	Scn   *scn.Scn     `json:"scn,omitempty"`
	Ans   []scn.Answer `json:"answers,omitempty"`
	Modes []bool       `json:"modes,omitempty"`
}

func c18Opts(tier string) stdOpts {
	o := stdOpts{IMBound: 1, SeqL: 2, EntrySeqL: 1, EIPs: true, Forks: []world.Fork{world.Frontier, world.Byzantium, world.Berlin, world.Shanghai}, Gas: 200000, MinShape: true, SstoreSeq: true, Scn: true, ScnLite: true, ScnGas: 3_000_000}
	if tier == "thorough" {
		o.Forks = world.StandardForks()
		o.IMBound = 2
		o.SeqL = 3
		o.ScnLite = false
	}
	return o
}

func c18Limits(tier string, all []uint64) []uint64 {
	k := 4
	if tier == "thorough" {
		k = 12
	}
	if len(all) <= k {
		return all
	}
	var out []uint64
	for i := 0; i < k; i++ {
		out = append(out, all[i*len(all)/k])
	}
	return out
}

func init() {
	pairs := c18Pairs()
	register(&Check{
		ID:        "C18",
		Level:     "model_checking",
		Technique: "bounded exhaustive enumeration of programs x gas limits (step boundaries of the ample-gas run) executed on the real interpreter and on go-ethereum v1.12.0 with (i) equivalent full-data recording debug tracers and (ii) each ported tracer next to its upstream original, results compared byte for byte; scenario call trees with failing join points for balance and nesting of the event stream",
		Rule: "(i) C01's IM/SEQ/ENTRY/EIPS/SSTORESEQ/SDSEQ/CREATESEQ families: full callback streams (copied stack, memory, return data, gas, cost, depth, refund, error text; enter/exit arguments) equal at ample gas and at sampled step-boundary limits; (iii) 18 tracer configurations (structLogger x5, accessListTracer with and without a previous list, prestateTracer x2, 4byteTracer, callTracer x3, flatCallTracer x3, muxTracer, noopTracer) port vs upstream, bracketed by the same CaptureTxStart/End, at ample gas and 2 limits; (ii) scenario trees (depth 2 and depth-3 chains) with Aspects bound everywhere and failing answers, 1-3 invocations: start/end, enter/exit, Aspect enter/exit balanced and nested, every instruction reported at the depth of the open frames. non-trivial = distinct (case, limit, tracer) runs whose reference result contains at least one nested frame or an error",
		Assumptions: []string{"tracer outputs are compared when no Aspect is bound (the statement's domain for the inherited tracers)", "prestateTracer/muxTracer are not run on instruction-matrix cases whose CREATE2 announces an init code of 2^32 bytes or more: both the ported and the upstream tracer copy that range before the instruction's gas check (4 GiB and more per run); counted as skipped"},
		Bounds: func(t string) map[string]any {
			o := c18Opts(t)
			return map[string]any{"im_operand_deviation_bound": o.IMBound, "seq_len": o.SeqL, "forks": len(o.Forks), "tracer_configurations": len(pairs), "limits_per_case": len(c18Limits(t, make([]uint64, 100)))}
		},
		Quick:    100 * time.Second,
		Thorough: 45 * time.Minute,
		Run: func(w *fw.W) {
			o := c18Opts(w.Tier)
			sess := stdSession()
			c18Trace := os.Getenv("VERIF_C18_TRACE") != ""
			lastTrace := int64(0)
			forEachStdCase(w, o, func(cs *world.Case, family string) {
				if family == "BYTES" {
					return
				}
				sess := sess
				if family == "SCN" || family == "SSTORESEQ" || family == "SDSEQ" || family == "CREATESEQ" {
					sess = world.NewSession(cs.Accounts)
				}
				if c18Trace && w.Evals-lastTrace > 20000 {
					lastTrace = w.Evals
					fmt.Fprintf(os.Stderr, "trace %s evals=%d %s %s\n", time.Now().Format("15:04:05"), w.Evals, family, cs.Note)
				}
				// (i) full-data streams
				d, rrec, r, _ := tracePair(sess, cs, false)
				if len(w.Samples) == 0 {
					w.Sample(map[string]any{"note": cs.Note, "fork": cs.ForkName, "events": len(rrec.Lines)})
				}
				w.Evals++
				w.Transitions += int64(len(rrec.Lines))
				h := fw.Hash(cs.Note, cs.ForkName) ^ fw.HashBytes(cs.Accounts[1].Code)
				w.State(h)
				if r.Panic != "" {
					w.Skipped++
					return
				}
				if d != "" {
					c18Report(w, cs, -1, d, func() string { d2, _, _, _ := tracePair(sess, cs, false); return d2 })
					return
				}
				limits := c18Limits(w.Tier, sweepLimits(cs.Gas, rrec.Lines, r.Gas, 0, false, 40))
				for _, lim := range limits {
					c2 := *cs
					c2.Gas = lim
					d, rr, _, _ := tracePair(sess, &c2, false)
					w.Evals++
					w.Transitions += int64(len(rr.Lines))
					if d != "" {
						c2 := c2
						c18Report(w, &c2, -1, d, func() string { d2, _, _, _ := tracePair(sess, &c2, false); return d2 })
						return
					}
				}
				// (iii) paired tracers
				runs := []*world.Case{cs}
				if len(limits) > 2 {
					a, b := *cs, *cs
					a.Gas, b.Gas = limits[len(limits)/2], limits[len(limits)-2]
					runs = append(runs, &a, &b)
				}
				nested := strings.Contains(strings.Join(rrec.Lines, "\n"), "\n> ")
				hugeCreate2 := c18HugeCreate2(family, cs.Note)
				for pi, p := range pairs {
					if hugeCreate2 && (strings.HasPrefix(p.Name, "prestateTracer") || strings.HasPrefix(p.Name, "muxTracer")) {
						// the prestate tracer (ported and upstream alike) copies the init-code range CREATE2 announces before the
						// instruction's own gas check: 4 GiB and more per run on both sides - out of the compared domain
						w.Skipped++
						continue
					}
					for _, c := range runs {
						d := c18TracerDiff(sess, c, p)
						w.Evals++
						w.Transitions++
						if nested || c.Gas != cs.Gas {
							w.Nontrivial(h ^ fw.Hash(p.Name, fmt.Sprint(c.Gas)))
						}
						if d != "" {
							c, pi, p := c, pi, p
							c18Report(w, c, pi, p.Name+": "+d, func() string { return p.Name + ": " + c18TracerDiff(sess, c, p) })
							return
						}
					}
				}
				if w.Evals%9973 < 40 {
					w.Sample(map[string]any{"note": cs.Note, "fork": cs.ForkName, "events": len(rrec.Lines), "limits": limits})
				}
			})
			// (ii) balance under join-point failures
			fams := []scnFamily{chainFamily(w.Tier, []scn.Effect{scn.ENone}, func(o *scnOpts) { o.NAspects = []int{1, 2} })}
			o2, b2 := c04Opts(w.Tier)
			o2.Forks = []world.Fork{world.Shanghai}
			o2.Gen.Effects, o2.Gen.PreEffects = []scn.Effect{scn.ENone}, nil
			fams = append(fams, scnFamily{o2, b2, [][]bool{{true}, {true, false, true}}})
			for _, f := range fams {
				f := f
				modeSets := f.Modes
				if len(modeSets) == 0 {
					modeSets = [][]bool{nil}
				}
				mc.Explore(f.Bound, func(c *mc.Ctx) {
					s := genScn(c, f.O)
					modes := modeSets[c.Choose(len(modeSets))]
					if !w.MineKey(fw.Hash(s.String())) {
						return
					}
					r, _ := execScnSeq(c, s, f.O.Answers, modes, false)
					w.Evals++
					w.Transitions += int64(len(r.Rec.All))
					w.Extra("balance_executions", 1)
					w.State(fw.Hash(s.String(), describeAnswers(r.Answers), fmt.Sprint(modes)))
					d := c18Balance(r.Events())
					if p := anyPanic(r); p != "" {
						d = "panic: " + p
					}
					if d != "" {
						w.Violate("balance", d+"\n"+s.String()+describeAnswers(r.Answers), c18Replay{Scn: s, Ans: append([]scn.Answer{}, r.Answers...), Modes: modes})
					}
				}, func() bool { return w.Expired() })
			}
		},
		Replay: func(raw json.RawMessage) []fw.Violation {
			var rp c18Replay
			if err := json.Unmarshal(raw, &rp); err != nil {
				panic(err)
			}
			var sig, d string
			switch {
			case rp.Scn != nil:
				r, _ := replayScnSeq(rp.Scn, rp.Ans, rp.Modes, false)
				if d = c18Balance(r.Events()); d != "" {
					sig = "balance"
				}
			case rp.Pair < 0:
				d, _, _, _ = tracePair(world.NewSession(rp.Case.Accounts), rp.Case, false)
				sig = "stream"
			default:
				p := c18Pairs()[rp.Pair]
				d = c18TracerDiff(world.NewSession(rp.Case.Accounts), rp.Case, p)
				sig = "tracer:" + strings.SplitN(p.Name, "{", 2)[0]
			}
			if d == "" {
				return nil
			}
			return []fw.Violation{{Sig: sig, Detail: d, Case: raw}}
		},
	})
}

// c18HugeCreate2 recognises the instruction-matrix cases in which CREATE2 announces an init code of 2^32 bytes or more
// (size operand = index >= 7 of the length alphabet).
func c18HugeCreate2(family, note string) bool {
	if (family != "IM" && family != "EIPS") || !strings.Contains(note, "op=0xf5 ") {
		return false
	}
	i := strings.LastIndex(note, "operands=[")
	if i < 0 {
		return false
	}
	f := strings.Fields(strings.TrimSuffix(note[i+len("operands=["):], "]"))
	if len(f) < 3 {
		return false
	}
	n, err := strconv.Atoi(f[2])
	return err == nil && n >= 7
}

func c18Report(w *fw.W, cs *world.Case, pair int, d string, again func() string) {
	for i := 0; i < 3; i++ {
		if d2 := again(); d2 != d {
			w.Notes = append(w.Notes, "UNREPRODUCED: C18 violation did not reproduce: "+cs.Note+"\nfirst:  "+d+"\nsecond: "+d2)
			return
		}
	}
	sig := "stream"
	if pair >= 0 {
		sig = "tracer:" + strings.SplitN(c18Pairs()[pair].Name, "{", 2)[0]
	}
	w.Violate(sig, fmt.Sprintf("%s gas=%d\n%s", cs.Note, cs.Gas, d), c18Replay{Case: cs, Pair: pair})
}

var _ = common.Address{}
