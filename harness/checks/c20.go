package checks

import (
	"encoding/json"
	"fmt"
	"math/big"
	"os"
	"runtime"
	"runtime/debug"
	"runtime/metrics"
	"strings"
	"time"

	avm "github.com/artela-network/artela-evm/vm"
	"github.com/ethereum/go-ethereum/common"
	"github.com/holiman/uint256"
	"verif/asm"
	"verif/fw"
	"verif/gen"
	"verif/mc"
	"verif/world"
)

// C20 — work done per instruction is bounded by the gas it pays.

// Bounds (fixed multiples of the gas charged for the instruction). The constants sit well above what any standard
// instruction of the calibration family needs (see evidence counters max_*), so standard behaviour never alarms.
const (
	c20ReadsBase, c20ReadsPerGas   = 8, 50     // state reads <= 8 + gas/50
	c20AllocBase, c20AllocPerGas   = 65536, 48 // bytes allocated <= 64 KiB + 48*gas (the runtime accounts small objects per 8 KiB span, hence the base)
	c20RetainBase, c20RetainPerGas = 256, 8    // bytes retained by the recorder <= 256 + 8*gas
	c20ReadSentinel                = 50000
)

type workStep struct {
	PC        uint64
	Op        byte
	Gas       uint64
	Cost      uint64
	Depth     int
	Alloc     uint64
	Reads     uint64
	Retained  uint64
	Err       bool
	Announced uint64 // journal instructions: string length announced by storage (VRJNAL) or memory (key journals)
}

// workRec is an allocation-free debug tracer: it samples cumulative work counters at every step callback.
type workRec struct {
	steps  []workStep
	db     *world.TDB
	tracer *avm.Tracer
	sample []metrics.Sample
}

func newWorkRec() *workRec {
	return &workRec{steps: make([]workStep, 0, 1<<14), sample: []metrics.Sample{{Name: "/gc/heap/allocs:bytes"}}}
}

func (r *workRec) allocs() uint64 {
	metrics.Read(r.sample)
	return r.sample[0].Value.Uint64()
}

func (r *workRec) mark(pc uint64, op byte, gas, cost uint64, depth int, err bool) {
	if len(r.steps) == cap(r.steps) {
		return
	}
	var ret uint64
	if r.tracer != nil {
		ret = r.tracer.VerifRetainedBytes()
	}
	r.steps = append(r.steps, workStep{PC: pc, Op: op, Gas: gas, Cost: cost, Depth: depth, Alloc: r.allocs(), Reads: r.db.Reads, Retained: ret, Err: err})
}

func (r *workRec) CaptureTxStart(uint64) {}
func (r *workRec) CaptureTxEnd(uint64)   {}
func (r *workRec) CaptureStart(*avm.EVM, common.Address, common.Address, bool, []byte, uint64, *big.Int) {
}
func (r *workRec) CaptureEnd([]byte, uint64, error) {}
func (r *workRec) CaptureEnter(avm.OpCode, common.Address, common.Address, []byte, uint64, *big.Int) {
}
func (r *workRec) CaptureExit([]byte, uint64, error) {}
func (r *workRec) CaptureState(pc uint64, op avm.OpCode, gas, cost uint64, scope *avm.ScopeContext, rData []byte, depth int, err error) {
	r.mark(pc, byte(op), gas, cost, depth, err != nil)
	if b := byte(op); b >= 0xe0 && b <= 0xe7 && len(r.steps) > 0 && err == nil {
		st := scope.Stack.Data()
		at := func(i int) *uint256.Int {
			if len(st) > i {
				return &st[len(st)-1-i]
			}
			return nil
		}
		var ann uint64
		switch b {
		case 0xe7:
			if slot := at(0); slot != nil {
				head := r.db.StateDB.GetState(scope.Contract.Address(), common.Hash(slot.Bytes32()))
				if l, _, ok := gen.StringLen(head); ok && l.IsUint64() {
					ann = l.Uint64()
				} else if ok {
					ann = 1 << 62
				}
			}
		case 0xe0, 0xe1, 0xe2, 0xe3:
			i := 0
			if b == 0xe2 || b == 0xe3 {
				i = 2
			}
			if ptr := at(i); ptr != nil && ptr.IsUint64() {
				mem := scope.Memory.Data()
				if p := ptr.Uint64(); p <= uint64(len(mem)) && uint64(len(mem))-p >= 32 {
					if l := new(uint256.Int).SetBytes(mem[p : p+32]); l.IsUint64() {
						ann = l.Uint64()
					}
				}
			}
		}
		r.steps[len(r.steps)-1].Announced = ann
	}
}
func (r *workRec) CaptureFault(uint64, avm.OpCode, uint64, uint64, *avm.ScopeContext, int, error) {}

type c20Verdict struct {
	Sig, Detail string
	MaxReadsX   int64 // worst (reads - base) * 1000 / gas-allowance observed on non-violating steps (calibration)
	MaxAllocX   int64
	Steps       int
	Charged     uint64
}

func opClass(op byte) string {
	switch {
	case op == 0xe7:
		return "VRJNAL"
	case op == 0xe0 || op == 0xe1 || op == 0xe2 || op == 0xe3:
		return "key_journal"
	case op >= 0xe4 && op <= 0xe6:
		return "value_journal"
	}
	return avm.OpCode(op).String()
}

// c20Exec runs the case with the work recorder and judges every instruction. target names the callee of interest
// for CALL-type instructions (precompile address byte) or 0.
func c20Exec(cs *world.Case, target byte) c20Verdict {
	rec := newWorkRec()
	env := world.NewA(cs, world.AOpts{Tracer: rec, Host: scriptedHost(0, &hostLog{})})
	rec.db, rec.tracer = env.DB, env.EVM.Tracer()
	env.DB.ReadLimit = c20ReadSentinel
	_, _, _, _, p := env.Call(cs)
	endAlloc, endReads, endRet := rec.allocs(), env.DB.Reads, env.EVM.Tracer().VerifRetainedBytes()
	env.DB.ReadLimit = 0
	v := c20Verdict{Steps: len(rec.steps)}
	if p != "" {
		if world.IsSentinel(p) && len(rec.steps) > 0 {
			last := rec.steps[len(rec.steps)-1]
			v.Sig = "unbounded:" + opClass(last.Op) + ":state_reads"
			v.Detail = fmt.Sprintf("instruction %s (cost %d) exceeded %d state reads: cut off by the work sentinel", avm.OpCode(last.Op), last.Cost, c20ReadSentinel)
			return v
		}
		v.Sig, v.Detail = "panic", p
		return v
	}
	for i, s := range rec.steps {
		if i == cap(rec.steps)-1 {
			break // the recorder was full: what follows the last recorded step is not attributable to it
		}
		nAlloc, nReads, nRet := endAlloc, endReads, endRet
		charged := s.Cost
		if i+1 < len(rec.steps) {
			n := rec.steps[i+1]
			nAlloc, nReads, nRet = n.Alloc, n.Reads, n.Retained
			if n.Depth == s.Depth && s.Gas >= n.Gas {
				charged = s.Gas - n.Gas // exact consumption, including precompile fees and returned call gas
			}
		}
		if s.Err {
			charged = s.Gas // the instruction failed: the frame's remaining gas is forfeited
		}
		reads, alloc := nReads-s.Reads, nAlloc-s.Alloc
		var retained uint64
		if nRet > s.Retained {
			retained = nRet - s.Retained
		}
		cls := opClass(s.Op)
		if target != 0 && (s.Op == asm.CALL || s.Op == asm.STATICCALL || s.Op == asm.DELEGATECALL || s.Op == asm.CALLCODE) {
			cls = fmt.Sprintf("precompile_%#x", target)
		}
		// work beyond what the announced string itself requires is a different finding than the flat fee
		if s.Op == 0xe7 && reads > (s.Announced+31)/32+2 && reads > c20ReadsBase+charged/c20ReadsPerGas {
			cls += ":more_reads_than_words"
		}
		if (cls == "key_journal") && (alloc > 4*s.Announced+c20AllocBase || retained > 2*s.Announced+1024) {
			cls += ":more_than_the_string"
		}
		switch {
		case reads > c20ReadsBase+charged/c20ReadsPerGas:
			v.Sig = "reads:" + cls
			v.Detail = fmt.Sprintf("step %d pc=%d %s charged %d gas performed %d state reads (bound %d + gas/%d)", i, s.PC, avm.OpCode(s.Op), charged, reads, c20ReadsBase, c20ReadsPerGas)
		case alloc > c20AllocBase+c20AllocPerGas*charged:
			v.Sig = "alloc:" + cls
			v.Detail = fmt.Sprintf("step %d pc=%d %s charged %d gas allocated %d bytes (bound %d + %d*gas)", i, s.PC, avm.OpCode(s.Op), charged, alloc, c20AllocBase, c20AllocPerGas)
		case retained > c20RetainBase+c20RetainPerGas*charged:
			v.Sig = "retained:" + cls
			v.Detail = fmt.Sprintf("step %d pc=%d %s charged %d gas made the recorder retain %d more bytes (bound %d + %d*gas)", i, s.PC, avm.OpCode(s.Op), charged, retained, c20RetainBase, c20RetainPerGas)
		}
		if v.Sig != "" {
			v.Charged = charged
			return v
		}
		if os.Getenv("VERIF_C20_CALIB") == "2" && alloc > 4096 {
			fmt.Fprintf(os.Stderr, "step %d/%d pc=%d op=%s charged=%d alloc=%d reads=%d retained=%d :: %s\n", i, len(rec.steps), s.PC, avm.OpCode(s.Op), charged, alloc, reads, retained, cs.Note)
		}
		if reads > c20ReadsBase {
			if x := int64(reads-c20ReadsBase) * 1000 * c20ReadsPerGas / int64(charged+1); x > v.MaxReadsX {
				v.MaxReadsX = x
			}
		}
		if alloc > c20AllocBase {
			if x := int64(alloc-c20AllocBase) * 1000 / int64(c20AllocPerGas*(charged+1)); x > v.MaxAllocX {
				v.MaxAllocX = x
			}
		} else if x := int64(alloc) * 1000 / c20AllocBase; charged < 10 && x > v.MaxAllocX {
			v.MaxAllocX = x // small instructions: fraction of the base allowance used
		}
	}
	return v
}

// ---------------------------------------------------------------- case families

// bigMemJournal: key-journal instructions over a large, paid-for memory whose length word announces all of it.
func c20BigMemCases(fn func(cs *world.Case, note string)) {
	for _, op := range []byte{0xe0, 0xe1, 0xe2, 0xe3} {
		for _, size := range []uint64{1 << 10, 1 << 16, 1 << 20} {
			for _, lenKind := range []string{"all", "half", "small"} {
				jop := gen.JOpByByte(op)
				a := asm.New()
				// expand memory to size bytes, length word at 0
				a.Push(0).Push(size - 32).Op(asm.MSTORE)
				l := size - 32
				switch lenKind {
				case "half":
					l = size / 2
				case "small":
					l = 16
				}
				a.Push(l).Push(0).Op(asm.MSTORE)
				// registration of the parent for the nested variants
				if op == 0xe2 || op == 0xe3 {
					a.Push(1).Push(regNamePtr).Op(asm.MSTORE) // name "\x00" of length 1 at 0x200 (inside the big memory)
					st := gen.RegisterRefVar(regNamePtr, uint256.NewInt(1), gen.TypeB)
					for i := len(st.Operands) - 1; i >= 0; i-- {
						a.PushU(st.Operands[i])
					}
					a.Op(st.Op)
					a.Push(l).Push(0).Op(asm.MSTORE)
				}
				var operands []*uint256.Int
				for _, r := range jop.Roles {
					switch r {
					case gen.JPtr:
						operands = append(operands, uint256.NewInt(0))
					case gen.JSlot:
						operands = append(operands, uint256.NewInt(0))
					case gen.JBase:
						operands = append(operands, uint256.NewInt(1))
					case gen.JOff:
						operands = append(operands, uint256.NewInt(0))
					case gen.JType:
						operands = append(operands, u256(gen.TypeA))
					case gen.JPType:
						operands = append(operands, u256(gen.TypeB))
					}
				}
				for i := len(operands) - 1; i >= 0; i-- {
					a.PushU(operands[i])
				}
				a.Op(op).Op(asm.STOP)
				cs := gen.StdCase(world.Shanghai, a.Bytes(), "call", 6_000_000)
				note := fmt.Sprintf("BIGMEM %s memory=%d length=%s", jop.Name, size, lenKind)
				cs.Note = note
				fn(cs, note)
			}
		}
	}
	// reference journal over strings of growing length (data slots absent: reads still happen)
	for _, l := range []uint64{31, 64, 256, 1024, 1 << 16, 1 << 20, 1 << 62, 1<<63 - 1} {
		a := asm.New()
		for _, w := range gen.StrWords(regNamePtr, []byte("s")) {
			a.Push32(w.Word).Push(w.Off).Op(asm.MSTORE)
		}
		for _, st := range []gen.JStep{gen.RegisterRefVar(regNamePtr, uint256.NewInt(6), gen.TypeA), gen.RefJournal(uint256.NewInt(6), gen.TypeA)} {
			for i := len(st.Operands) - 1; i >= 0; i-- {
				a.PushU(st.Operands[i])
			}
			a.Op(st.Op)
		}
		a.Op(asm.STOP)
		cs := gen.StdCase(world.Shanghai, a.Bytes(), "call", 1_000_000)
		head := common.BigToHash(new(big.Int).SetUint64(2*l + 1))
		if l < 32 {
			head = gen.EncodeString(uint256.NewInt(6), gen.PatternBytes(int(l)))[common.BigToHash(big.NewInt(6))]
		}
		cs.Accounts[1].Storage = map[common.Hash]common.Hash{common.BigToHash(big.NewInt(6)): head}
		note := fmt.Sprintf("REFLEN VRJNAL string length %d", l)
		cs.Note = note
		fn(cs, note)
	}
}

// c20BigStdCases: standard instructions that take a memory window, over a large memory that was paid for once: the
// window costs no expansion gas any more, so whatever the instruction (or the recorders behind it) copies, hashes or
// keeps per byte of the window must be covered by the instruction's own per-byte charge. Each instruction is executed
// three times (cold and warm targets).
func c20BigStdCases(fn func(cs *world.Case, note string)) {
	type win struct{ in, out uint64 }
	for _, f := range []world.Fork{world.London, world.Shanghai, world.Cancun} {
		for _, size := range []uint64{1 << 16, 1 << 20} {
			prog := func(name string, body func(a *asm.P)) {
				a := asm.New()
				a.Push(0).Push(size - 32).Op(asm.MSTORE)
				for i := 0; i < 3; i++ {
					body(a)
				}
				a.Op(asm.STOP)
				cs := gen.StdCase(f, a.Bytes(), "call", 12_000_000)
				note := fmt.Sprintf("BIGSTD %s %s memory=%d", f, name, size)
				cs.Note = note
				fn(cs, note)
			}
			targets := []struct {
				Name string
				Addr common.Address
			}{{"codeless", gen.EOA}, {"absent", gen.Absent}, {"returns32", gen.CRet}, {"stops", gen.CStop}, {"reverts", gen.CRevert}}
			for _, t := range targets {
				for _, wn := range []win{{size, 0}, {0, size}, {size, size}} {
					for _, op := range []byte{asm.CALL, asm.CALLCODE, asm.DELEGATECALL, asm.STATICCALL} {
						op, t, wn := op, t, wn
						prog(fmt.Sprintf("%s to %s in=%d out=%d", avm.OpCode(op), t.Name, wn.in, wn.out), func(a *asm.P) {
							a.Push(wn.out).Push(0).Push(wn.in).Push(0)
							if op == asm.CALL || op == asm.CALLCODE {
								a.Push(0)
							}
							a.PushAddr(t.Addr).Push(100000).Op(op, asm.POP)
						})
					}
				}
			}
			for _, op := range []byte{asm.CREATE, asm.CREATE2} {
				op := op
				prog(fmt.Sprintf("%s init=%d", avm.OpCode(op), size), func(a *asm.P) {
					if op == asm.CREATE2 {
						a.Push(7)
					}
					a.Push(size).Push(0).Push(0).Op(op, asm.POP)
				})
			}
			prog("KECCAK256", func(a *asm.P) { a.Push(size).Push(0).Op(asm.KECCAK256, asm.POP) })
			prog("LOG0", func(a *asm.P) { a.Push(size).Push(0).Op(asm.LOG0) })
			prog("LOG2", func(a *asm.P) { a.Push(1).Push(2).Push(size).Push(0).Op(asm.LOG2) })
			prog("CALLDATACOPY", func(a *asm.P) { a.Push(size).Push(0).Push(0).Op(asm.CALLDATACOPY) })
			prog("CODECOPY", func(a *asm.P) { a.Push(size).Push(0).Push(0).Op(asm.CODECOPY) })
			prog("EXTCODECOPY", func(a *asm.P) { a.Push(size).Push(0).Push(0).PushAddr(gen.CRet).Op(asm.EXTCODECOPY) })
			if f >= world.Cancun {
				prog("MCOPY", func(a *asm.P) { a.Push(size - 64).Push(0).Push(32).Op(asm.MCOPY) })
			}
			// the frame's own result window
			for _, op := range []byte{asm.RETURN, asm.REVERT} {
				a := asm.New().Push(0).Push(size - 32).Op(asm.MSTORE).Push(size).Push(0).Op(op)
				cs := gen.StdCase(f, a.Bytes(), "call", 12_000_000)
				note := fmt.Sprintf("BIGSTD %s %s memory=%d", f, avm.OpCode(op), size)
				cs.Note = note
				fn(cs, note)
			}
		}
	}
}

// precompile work: CALL into each precompile with inputs that stress its pricing.
type pcWork struct {
	Addr  byte
	Name  string
	Input []byte
	Size  uint64 // input size passed to CALL (memory beyond Input is zero)
}

func word32(v uint64) []byte { return common.BigToHash(new(big.Int).SetUint64(v)).Bytes() }

func c20PrecompileInputs(c *mc.Ctx) pcWork {
	addrs := []byte{1, 2, 3, 4, 5, 6, 7, 8, 9, 0x64, 0x65, 0x66}
	addr := addrs[c.Choose(len(addrs))]
	sizes := []uint64{0, 32, 128, 4096, 1 << 16, 1 << 20}
	w := pcWork{Addr: addr}
	switch addr {
	case 5:
		lens := []uint64{1, 0, 32, 33, 1 << 10, 1 << 16, 1 << 20, 1 << 24, 1 << 32}
		b := lens[c.Deviate(len(lens))]
		e := lens[c.Deviate(len(lens))]
		m := lens[c.Deviate(len(lens))]
		w.Input = append(append(word32(b), word32(e)...), word32(m)...)
		// data: base (one non-zero byte if it fits), exponent head zero or not, rest zero
		data := make([]byte, 96)
		if c.Choose(2) == 1 && b <= 32 {
			copy(data[b:], []byte{0x03}) // first exponent byte non-zero
		}
		data[0] = 2
		w.Input = append(w.Input, data...)
		w.Size = []uint64{uint64(len(w.Input)), 96 + 4096, 96 + 1<<16}[c.Choose(3)]
		w.Name = fmt.Sprintf("modexp b=%d e=%d m=%d size=%d", b, e, m, w.Size)
	case 9:
		rounds := []uint64{12, 0, 1, 1 << 16, 1<<32 - 1}[c.Deviate(5)]
		in := make([]byte, 213)
		in[0], in[1], in[2], in[3] = byte(rounds>>24), byte(rounds>>16), byte(rounds>>8), byte(rounds)
		in[212] = 1
		w.Input, w.Size = in, 213
		w.Name = fmt.Sprintf("blake2f rounds=%d", rounds)
	default:
		w.Size = sizes[c.Choose(len(sizes))]
		n := w.Size
		if n > 256 {
			n = 256
		}
		w.Input = gen.PatternBytes(int(n))
		if addr == 0x66 && w.Size >= 160 {
			// (bytes,bytes) whose value length word announces more than the payload carries
			if k := c.Deviate(6); k > 0 {
				announced := []uint64{1 << 20, 1 << 24, 1 << 26, 1 << 32, 1 << 40}[k-1]
				p := make([]byte, 160)
				copy(p[0:], word32(64))
				copy(p[32:], word32(128))
				copy(p[64:], word32(5))
				copy(p[128:], word32(announced))
				w.Input = p
				w.Name = fmt.Sprintf("precompile 0x66 size=%d value length word=%d", w.Size, announced)
				return w
			}
		}
		if addr == 0x66 && w.Size >= 128 {
			// well-formed (bytes,bytes): key = 5 bytes, value = everything else
			p := make([]byte, 160)
			copy(p[0:], word32(64))
			copy(p[32:], word32(128))
			copy(p[64:], word32(5))
			copy(p[128:], word32(w.Size-160))
			w.Input = p
		}
		w.Name = fmt.Sprintf("precompile %#x size=%d", addr, w.Size)
	}
	return w
}

func c20PrecompileCase(f world.Fork, w pcWork) *world.Case {
	a := asm.New()
	for i := 0; i < len(w.Input); i += 32 {
		var h common.Hash
		copy(h[:], w.Input[i:])
		a.Push32(h).Push(uint64(i)).Op(asm.MSTORE)
	}
	a.Push(0).Push(0).Push(w.Size).Push(0).Push(0).PushAddr(gen.PrecompileAddr(w.Addr)).Op(asm.GAS).Op(asm.CALL).Op(asm.POP).Op(asm.STOP)
	cs := gen.StdCase(f, a.Bytes(), "call", 6_000_000)
	cs.Note = w.Name
	return cs
}

type c20Replay struct {
	Case   *world.Case `json:"case"`
	Target byte        `json:"target"`
}

func init() {
	register(&Check{
		ID:        "C20",
		Level:     "model_checking",
		Technique: "bounded exhaustive enumeration of instruction/operand/memory/storage boundary products and precompile inputs executed on the real interpreter with per-instruction work monitors (counting StateDB, heap-allocation counter, recorder retention), each instruction judged against fixed multiples of the gas charged for it; state-read sentinel for unbounded loops",
		Rule:      "families: (STD) instruction matrix of all standard opcodes (operand tuples with <=2 non-default operands from the boundary alphabets, 3 pre-state shapes) on Frontier/Berlin/Cancun - calibrates the bounds; (JM) journal matrix of C03 with the full alphabet; (BIGMEM) key-journal instructions over 1 KiB/64 KiB/1 MiB of paid memory with length words announcing all/half/16 bytes, reference journal over strings of 31..2^20 bytes; (BIGSTD) CALL/CALLCODE/DELEGATECALL/STATICCALL (5 kinds of target, argument and/or return window), CREATE/CREATE2, KECCAK256, LOG, the copy instructions, RETURN/REVERT over a window of 64 KiB / 1 MiB of memory that was paid for before, three times each, on London/Shanghai/Cancun; (PC) CALL into precompiles 1-9 and 0x64-0x66 with sizes 0..1 MiB, modexp length triples from {0,1,32,33,2^10,2^16,2^20,2^24,2^32} (<=2 deviations) with zero/non-zero exponent head, blake2f rounds up to 2^32-1. Every executed instruction: reads <= 8 + gas/50, allocated <= 64 KiB + 48*gas, retained <= 256 + 8*gas, gas = exact consumption of that instruction. non-trivial = distinct cases in which some instruction performed a state read or allocated more than 1 KiB",
		Assumptions: []string{
			"allocation is measured with runtime/metrics /gc/heap/allocs:bytes around each instruction in a single-goroutine worker; the tracer callback itself allocates nothing",
			"hashing work is not measured separately (it is proportional to bytes read/allocated in every instruction concerned)",
		},
		Bounds: func(t string) map[string]any {
			return map[string]any{"reads": "8 + gas/50", "alloc_bytes": "65536 + 48*gas", "retained_bytes": "256 + 8*gas", "read_sentinel": c20ReadSentinel}
		},
		Quick:      90 * time.Second,
		Thorough:   30 * time.Minute,
		CrashAware: true,
		MemLimitKB: 8 << 20,
		Run: func(w *fw.W) {
			calib := os.Getenv("VERIF_C20_CALIB") != ""
			// the collector is run explicitly between cases so that no collection starts inside a measured execution
			debug.SetGCPercent(-1)
			maxR, maxA := int64(0), int64(0)
			run := func(family string, cs *world.Case, target byte) {
				w.MarkProgress(family + "\t" + cs.Note)
				if w.Evals%400 == 0 {
					runtime.GC()
				}
				v := c20Exec(cs, target)
				w.Evals++
				w.Transitions += int64(v.Steps)
				w.Extra("cases_"+family, 1)
				h := fw.Hash(cs.Note, cs.ForkName) ^ fw.HashBytes(cs.Accounts[1].Code)
				w.State(h)
				if v.MaxReadsX > 0 || v.MaxAllocX > 40 || v.Sig != "" {
					w.Nontrivial(h)
				}
				if v.MaxReadsX > maxR {
					maxR = v.MaxReadsX
					if calib {
						fmt.Fprintf(os.Stderr, "calib reads x=%d %s %s\n", maxR, cs.ForkName, cs.Note)
					}
				}
				if v.MaxAllocX > maxA {
					maxA = v.MaxAllocX
					if calib {
						fmt.Fprintf(os.Stderr, "calib alloc x=%d %s %s\n", maxA, cs.ForkName, cs.Note)
					}
				}
				if w.Evals%20011 == 1 {
					w.Sample(map[string]any{"family": family, "note": cs.Note, "fork": cs.ForkName, "steps": v.Steps})
				}
				if v.Sig != "" {
					// re-run: the verdict must be stable (allocation accounting is span-granular and can burst when the
					// runtime flushes its caches; a real overrun reproduces on every run)
					for i := 0; i < 3; i++ {
						if v2 := c20Exec(cs, target); v2.Sig != v.Sig {
							w.Extra("unstable_verdicts_discarded", 1)
							return
						}
					}
					w.Violate(v.Sig, v.Detail+"\n"+cs.Note, c20Replay{cs, target})
				}
			}
			// PC
			for _, f := range []world.Fork{world.Byzantium, world.Berlin, world.Shanghai} {
				f := f
				mc.Explore(2, func(c *mc.Ctx) {
					pw := c20PrecompileInputs(c)
					if !w.Mine() {
						return
					}
					if f < world.Istanbul && pw.Addr == 9 || f < world.Berlin && pw.Addr >= 0x64 {
						return
					}
					run("PC", c20PrecompileCase(f, pw), pw.Addr)
				}, func() bool { return w.Expired() })
			}
			// BIGMEM
			c20BigMemCases(func(cs *world.Case, note string) {
				if w.Mine() {
					run("BIGMEM", cs, 0)
				}
			})
			// BIGSTD
			c20BigStdCases(func(cs *world.Case, note string) {
				if w.Mine() && !w.Expired() {
					run("BIGSTD", cs, 0)
				}
			})
			// STD
			forks := []world.Fork{world.Berlin}
			if w.Thorough() {
				forks = []world.Fork{world.Frontier, world.Berlin, world.Cancun}
			}
			for _, f := range forks {
				for _, spec := range gen.StdOps() {
					for _, sh := range []gen.Shape{{}, {MemWords: 3, RData: true}, {Static: true}} {
						if w.Expired() {
							return
						}
						spec, sh, f := spec, sh, f
						gen.ExploreOperands(spec, 2, func(ops []*uint256.Int, choice []int) {
							if !w.Mine() {
								return
							}
							entry := "call"
							if sh.Static {
								entry = "staticcall"
							}
							cs := gen.StdCase(f, gen.BuildIM(f, spec, sh, ops), entry, 200_000)
							cs.Note = fmt.Sprintf("STD op=%#x shape=%+v operands=%v", spec.Op, sh, choice)
							run("STD", cs, 0)
						})
					}
				}
			}
			// JM
			mc.Explore(map[bool]int{false: 1, true: 2}[w.Thorough()], func(c *mc.Ctx) {
				jc := buildJM(c, w.Thorough(), false)
				if !w.Mine() {
					return
				}
				run("JM", jc.Case, 0)
			}, func() bool { return w.Expired() })
			w.Notes = append(w.Notes, fmt.Sprintf("worker %d: max reads %d permille, max alloc %d permille of the per-gas allowance on non-violating steps", w.Idx, maxR, maxA))
		},
		CrashSig: func(desc string) (string, json.RawMessage) {
			parts := strings.SplitN(desc, "\t", 2)
			return "fatal:" + parts[0], mustJSON(desc)
		},
		Replay: func(raw json.RawMessage) []fw.Violation {
			var r c20Replay
			if err := json.Unmarshal(raw, &r); err != nil || r.Case == nil {
				panic(fmt.Sprint("bad replay case ", err))
			}
			v := c20Exec(r.Case, r.Target)
			if v.Sig == "" {
				return nil
			}
			return []fw.Violation{{Sig: v.Sig, Detail: v.Detail, Case: raw}}
		},
	})
}
