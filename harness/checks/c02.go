package checks

import (
	"encoding/json"
	"fmt"
	"sort"
	"strconv"
	"strings"
	"time"

	"github.com/ethereum/go-ethereum/common"
	"verif/fw"
	"verif/gen"
	"verif/world"
)

// C02 — gas per step, per frame, refund and leftover equal the reference, at every gas limit of the sweep.

// tracePair runs the case on both VMs with gas-projection recorders and returns the first difference.
func tracePair(s *world.Session, cs *world.Case, noData bool) (diff string, rrec *world.RRec, r, a *world.Obs) {
	rrec = &world.RRec{Rec: world.Rec{NoData: noData}}
	re := s.R(cs, world.ROpts{Tracer: rrec})
	rrec.Refund = re.DB.GetRefund
	r = re.Invoke(cs)
	arec := &world.ARec{Rec: world.Rec{NoData: noData}}
	ae := s.A(cs, world.AOpts{Tracer: arec})
	arec.Refund = ae.DB.GetRefund
	a = ae.Invoke(cs)
	if r.Panic != "" {
		return "", rrec, r, a
	}
	if a.Panic != "" {
		return "panic: " + a.Panic, rrec, r, a
	}
	if i, x, y := world.FirstDiff(rrec.Lines, arec.Lines); i >= 0 {
		return fmt.Sprintf("event %d differs\nreference: %s\n/repo:     %s", i, x, y), rrec, r, a
	}
	if d := obsDiff(r, a); d != "" {
		return fmt.Sprintf("result field %s differs\nreference: %s err=%q\n/repo:     %s err=%q", d, r.Key(), r.Err, a.Key(), a.Err), rrec, r, a
	}
	return "", rrec, r, a
}

func fieldOf(line, key string) (uint64, bool) {
	i := strings.Index(line, " "+key+"=")
	if i < 0 {
		return 0, false
	}
	rest := line[i+len(key)+2:]
	if j := strings.IndexByte(rest, ' '); j >= 0 {
		rest = rest[:j]
	}
	v, err := strconv.ParseUint(rest, 10, 64)
	return v, err == nil
}

// sweepLimits derives the gas limits of the sweep from the ample-gas reference trace.
func sweepLimits(ample uint64, lines []string, leftover uint64, fullBelow uint64, images bool, maxSteps int) []uint64 {
	set := map[uint64]struct{}{0: {}, 1: {}, 2300: {}, 2301: {}}
	add := func(v uint64) {
		if v <= ample {
			set[v] = struct{}{}
		}
	}
	used := ample - leftover
	if used <= fullBelow {
		for v := uint64(0); v <= used+1; v++ {
			add(v)
		}
	}
	// per-depth bookkeeping: gas of the enclosing frames' call steps
	type fr struct{ usedBefore, start uint64 }
	var stack []fr
	var lastTopGas, lastCost uint64
	steps := 0
	for _, l := range lines {
		switch l[0] {
		case 'S':
			steps++
			if steps > maxSteps {
				continue
			}
			g, _ := fieldOf(l, "gas")
			c, _ := fieldOf(l, "cost")
			d, _ := fieldOf(l, "d")
			var u uint64
			if d <= 1 || len(stack) == 0 {
				u = ample - g
				lastTopGas, lastCost = g, c
			} else {
				f := stack[len(stack)-1]
				u = f.usedBefore + (f.start - g)
			}
			_ = c
			add(u - 1)
			add(u)
			add(u + 1)
			if images {
				// the same consumption seen through the 63/64 rule of an enclosing call
				add(u*64/63 + 1)
				add(u * 64 / 63)
			}
		case '>':
			g, _ := fieldOf(l, "gas")
			var before uint64
			if len(stack) == 0 {
				before = ample - lastTopGas + lastCost - g
				if before > ample {
					before = ample - lastTopGas
				}
			} else {
				before = stack[len(stack)-1].usedBefore
			}
			stack = append(stack, fr{before, g})
		case '<':
			if len(stack) > 0 {
				stack = stack[:len(stack)-1]
			}
		}
	}
	add(used - 1)
	add(used)
	add(used + 1)
	out := make([]uint64, 0, len(set))
	for v := range set {
		out = append(out, v)
	}
	sort.Slice(out, func(i, j int) bool { return out[i] < out[j] })
	return out
}

// maxSweepSteps caps the number of step boundaries (in execution order) that contribute limits to the sweep.
func maxSweepSteps(tier string) int {
	if tier == "thorough" {
		return 128
	}
	return 40
}

func c02Opts(tier string) (stdOpts, uint64) {
	o := stdOpts{IMBound: 1, SeqL: 2, EntrySeqL: 1, EIPs: true, Forks: world.StandardForks(), Gas: 200000, MinShape: true, SstoreSeq: true, Scn: true, ScnLite: true, ScnGas: 3_000_000}
	full := uint64(64)
	if tier == "thorough" {
		o.IMBound = 2
		o.SeqL = 3
		o.FullShape = true
		o.MinShape = false
		o.ScnDeep, o.ScnLite = true, false
		full = 2048
	}
	return o, full
}

func warmVariant(cs *world.Case) *world.Case {
	w := *cs
	for _, a := range cs.Accounts {
		w.WarmAddrs = append(w.WarmAddrs, a.Addr)
	}
	w.WarmAddrs = append(w.WarmAddrs, gen.Absent)
	w.WarmSlots = []common.Hash{{}, common.HexToHash("0x1"), common.HexToHash("0x2"), common.HexToHash("0x3")}
	w.Note += " warm"
	return &w
}

func init() {
	register(&Check{
		ID:        "C02",
		Level:     "model_checking",
		Technique: "bounded exhaustive enumeration of programs x gas limits (every step boundary -1/0/+1 and complete ranges for cheap programs) executed on the real interpreter with a recording debug tracer, compared event by event with upstream go-ethereum v1.12.0",
		Rule: "cases = C01's IM/SEQ/ENTRY/EIPS/SSTORESEQ/SDSEQ/CREATESEQ families and scenario trees x access-list state (cold, and all-warm on Berlin+) x gas limits: {0,1,2300,2301} + {v-1,v,v+1, and their 64/63 images} for v = cumulative gas at every step boundary of the ample-gas reference run (all depths) + every limit in [0,used+1] when the run uses <= full_sweep_below gas. Per execution the sequences (pc, op, gas before, cost, depth, refund counter, error) of every step, gas handed to / used by every frame, leftover and failure class must equal the reference. evaluations = (case, limit) pairs; states = distinct reference event streams; non-trivial = distinct (case, limit) pairs whose reference run ended out of gas in some frame",
		Assumptions: []string{
			"reference model is go-ethereum v1.12.0 core/vm with an equivalent recording EVMLogger",
			"limits strictly between step boundaries are only swept completely for programs below full_sweep_below gas",
		},
		Bounds: func(t string) map[string]any {
			o, full := c02Opts(t)
			return map[string]any{"im_operand_deviation_bound": o.IMBound, "seq_len": o.SeqL, "full_sweep_below": full, "forks": 12, "max_step_boundaries_per_case": maxSweepSteps(t), "images_64_63": t == "thorough"}
		},
		Quick:    110 * time.Second,
		Thorough: 45 * time.Minute,
		Run: func(w *fw.W) {
			o, full := c02Opts(w.Tier)
			sess := stdSession()
			forEachStdCase(w, o, func(base *world.Case, family string) {
				sess := sess
				if family == "SCN" || family == "SSTORESEQ" || family == "SDSEQ" || family == "CREATESEQ" {
					sess = world.NewSession(base.Accounts)
				}
				variants := []*world.Case{base}
				if base.Fork >= world.Berlin {
					variants = append(variants, warmVariant(base))
				}
				for _, cs := range variants {
					d, rrec, r, _ := tracePair(sess, cs, true)
					w.Evals++
					w.Transitions += int64(len(rrec.Lines))
					w.Extra("cases_"+family, 1)
					if d != "" {
						c02Report(w, sess, cs, d)
						continue
					}
					if r.Panic != "" {
						w.Skipped++
						continue
					}
					w.State(fw.Hash(strings.Join(rrec.Lines, "\n")))
					for _, lim := range sweepLimits(cs.Gas, rrec.Lines, r.Gas, full, w.Thorough(), maxSweepSteps(w.Tier)) {
						if lim == cs.Gas {
							continue
						}
						if w.Expired() {
							return
						}
						c2 := *cs
						c2.Gas = lim
						d, rr, r2, _ := tracePair(sess, &c2, true)
						w.Evals++
						w.Transitions += int64(len(rr.Lines))
						w.Extra("limits", 1)
						h := fw.Hash(strings.Join(rr.Lines, "\n"))
						w.State(h)
						if strings.Contains(r2.Err, "out of gas") || (len(rr.Lines) > 0 && strings.Contains(strings.Join(rr.Lines, "\n"), "out of gas")) {
							w.Nontrivial(h ^ fw.Hash(strconv.FormatUint(lim, 10)))
						}
						if d != "" {
							c02Report(w, sess, &c2, d)
							break
						}
					}
					if w.Evals%5003 < 30 {
						w.Sample(map[string]any{"note": cs.Note, "fork": cs.ForkName, "code": fmt.Sprintf("%x", []byte(cs.Accounts[1].Code)), "ample_gas_events": len(rrec.Lines)})
					}
				}
			})
		},
		Replay: func(raw json.RawMessage) []fw.Violation {
			var cs world.Case
			if err := json.Unmarshal(raw, &cs); err != nil {
				panic(err)
			}
			d, _, _, _ := tracePair(world.NewSession(cs.Accounts), &cs, true)
			if d == "" {
				return nil
			}
			return []fw.Violation{{Sig: c02Sig(d), Detail: d, Case: raw}}
		},
	})
}

func c02Sig(d string) string {
	switch {
	case strings.HasPrefix(d, "panic"):
		return "panic"
	case strings.HasPrefix(d, "event"):
		// classify by the kind of the reference event and the first differing field
		return "trace_diff"
	default:
		return "result_diff"
	}
}

func c02Report(w *fw.W, sess *world.Session, cs *world.Case, d string) {
	for i := 0; i < 4; i++ {
		d2, _, _, _ := tracePair(sess, cs, true)
		if d2 != d {
			w.Notes = append(w.Notes, "UNREPRODUCED: C02 violation did not reproduce: "+cs.Note)
			return
		}
	}
	w.Violate(c02Sig(d), fmt.Sprintf("%s gas=%d\n%s", cs.Note, cs.Gas, d), cs)
}
