package checks

import (
	"bytes"
	"encoding/json"
	"fmt"
	"math/big"
	"time"

	"github.com/ethereum/go-ethereum/common"
	"github.com/ethereum/go-ethereum/common/hexutil"
	"github.com/ethereum/go-ethereum/crypto"
	"github.com/holiman/uint256"
	"verif/asm"
	"verif/fw"
	"verif/gen"
	"verif/world"
)

// C09 — journaled values equal the decoded storage content at the moment of journaling.

var libAddr = world.ContractAddr(30) // code account for the DELEGATECALL / CALLCODE variants

type c09Case struct {
	Kind    string        `json:"kind"` // value | ref
	Fork    world.Fork    `json:"fork"`
	Via     string        `json:"via"` // direct | delegatecall | callcode
	Static  bool          `json:"static"`
	Fresh   bool          `json:"fresh"` // the head word is SSTOREd by the program right before the journal instruction
	Slot    *hexutil.Big  `json:"slot"`
	Off     *hexutil.Big  `json:"off,omitempty"`
	Width   *hexutil.Big  `json:"width,omitempty"`
	Word    common.Hash   `json:"word,omitempty"`    // value journal: the storage word
	Data    hexutil.Bytes `json:"data,omitempty"`    // ref journal: the string content (valid encodings)
	RawHead *common.Hash  `json:"raw_head,omitempty"` // ref journal: explicit (possibly invalid) head word instead of Data
	Note    string        `json:"note"`
	// Repeat > 1: the case is executed that many times in a row in one process and fails if any execution does (used
	// for verdicts that depend on what the process executed before)
	Repeat int `json:"repeat,omitempty"`
	// Again: the variable is announced twice before the journal instruction and once more after it (compiled code
	// announces a variable on every write); the recorded value must still be found under its name and its slot
	Again bool `json:"again,omitempty"`
}

// c09RunRepeated executes the case c.Repeat times (at least once); the first failing verdict is returned.
func c09RunRepeated(c *c09Case) (sig, detail string) {
	n := c.Repeat
	if n < 1 {
		n = 1
	}
	for i := 0; i < n; i++ {
		if s, d, _ := c09Run(c); s != "" && sig == "" {
			sig, detail = s, fmt.Sprintf("%s\n(execution %d of %d consecutive executions of the same case in one process)", d, i+1, n)
		}
	}
	return sig, detail
}

func hb(v *uint256.Int) *hexutil.Big { return (*hexutil.Big)(v.ToBig()) }
func ub(v *hexutil.Big) *uint256.Int {
	u, _ := uint256.FromBig((*big.Int)(v))
	return u
}

func notHash(h common.Hash) common.Hash {
	for i := range h {
		h[i] = ^h[i]
	}
	return h
}

// build assembles the world case and returns the expected journaled bytes (valid=false: must be rejected).
func (c *c09Case) build() (cs *world.Case, expect []byte, valid bool) {
	slot := ub(c.Slot)
	slotH := common.Hash(slot.Bytes32())
	prog := &gen.JProgram{Mem: gen.StrWords(regNamePtr, []byte("x"))}
	storage := map[common.Hash]common.Hash{}
	var pre []gen.MemWrite
	_ = pre
	a := asm.New()
	switch c.Kind {
	case "value":
		off, width := ub(c.Off), ub(c.Width)
		o8 := uint64(0)
		if off.IsUint64() && off.Uint64() <= 31 {
			o8 = off.Uint64()
		}
		prog.Steps = append(prog.Steps, gen.RegisterValueVar(regNamePtr, slot, o8, gen.TypeA))
		storage[slotH] = c.Word
		if c.Fresh {
			storage[slotH] = notHash(c.Word) // stale pre-state, overwritten by the program
		}
		prog.Steps = append(prog.Steps, gen.ValueJournal(slot, off, width, gen.TypeA))
		expect, valid = gen.PackedField(c.Word, (*big.Int)(c.Off), (*big.Int)(c.Width))
	case "ref":
		prog.Steps = append(prog.Steps, gen.RegisterRefVar(regNamePtr, slot, gen.TypeA))
		if c.RawHead != nil {
			storage[slotH] = *c.RawHead
		} else {
			for k, v := range gen.EncodeString(slot, c.Data) {
				storage[k] = v
			}
		}
		head := storage[slotH]
		if c.Fresh {
			storage[slotH] = notHash(head)
		}
		prog.Steps = append(prog.Steps, gen.RefJournal(slot, gen.TypeA))
		final := map[common.Hash]common.Hash{}
		for k, v := range storage {
			final[k] = v
		}
		final[slotH] = head
		var tooLong bool
		expect, valid, tooLong = gen.DecodeString(func(k common.Hash) common.Hash { return final[k] }, slot, 4096)
		if tooLong {
			panic("C09 case outside the decodable domain")
		}
		c.Word = head
	}
	// program: memory set-up, registration, [SSTORE head], journal, epilogue
	for _, w := range prog.Mem {
		a.Push32(w.Word).Push(w.Off).Op(asm.MSTORE)
	}
	emit := func(s gen.JStep) {
		for i := len(s.Operands) - 1; i >= 0; i-- {
			a.PushU(s.Operands[i])
		}
		a.Op(s.Op)
	}
	emit(prog.Steps[0])
	if c.Again {
		emit(prog.Steps[0])
	}
	if c.Fresh {
		a.Push32(c.Word).PushU(slot).Op(asm.SSTORE)
	}
	emit(prog.Steps[1])
	if c.Again {
		emit(prog.Steps[0])
	}
	a.Push(1).Push(0).Op(asm.MSTORE).Push(32).Push(0).Op(asm.RETURN)
	code := a.Bytes()

	entry := "call"
	if c.Static {
		entry = "staticcall"
	}
	if c.Via == "direct" {
		cs = gen.StdCase(c.Fork, code, entry, 400000)
	} else {
		cs = gen.StdCase(c.Fork, gen.Forwarder(c.Via, libAddr), entry, 400000)
		// the code account holds different words at the same slots: reading it instead of the executing
		// account's storage gives a visibly different value
		ls := map[common.Hash]common.Hash{}
		for k, v := range storage {
			ls[k] = notHash(v)
		}
		cs.Accounts = append(cs.Accounts, world.Account{Addr: libAddr, Nonce: 1, Code: code, Storage: ls})
	}
	cs.Accounts[1].Storage = storage
	cs.Input = nil
	cs.Note = c.Note
	return cs, expect, valid
}

// c09Run executes the case and applies the oracle.
func c09Run(c *c09Case) (sig, detail string, valid bool) {
	cs, expect, valid := c.build()
	env := world.NewA(cs, world.AOpts{})
	env.DB.ReadLimit = 100000
	ret, _, _, err, p := env.Call(cs)
	label := c.Kind
	if p != "" {
		return label + ":panic:" + normPanic(p), p, valid
	}
	// did the frame that executed the journal instruction complete?
	completed := err == nil
	if c.Via != "direct" {
		if err != nil || len(ret) < 32 {
			return label + ":harness", fmt.Sprintf("forwarder failed: %v", err), valid
		}
		completed = ret[31] == 1
	}
	sc := env.EVM.Tracer().StateChanges()
	byName := sc.Variable(gen.T, "x")
	var off *uint256.Int
	if c.Kind == "value" && ub(c.Off).IsUint64() && ub(c.Off).Uint64() <= 31 {
		off = ub(c.Off)
	}
	bySlot, serr := sc.Slot(gen.T, ub(c.Slot), off, gen.TypeA)
	if serr != nil {
		return label + ":slot_lookup_error", serr.Error(), valid
	}
	render := func(ch map[uint64][][]byte) string { return fmt.Sprintf("%x", ch) }
	var got map[uint64][][]byte
	if byName != nil {
		got = byName.Changes()
	}
	var gotSlot map[uint64][][]byte
	if bySlot != nil {
		gotSlot = bySlot.Changes()
	}
	if render(got) != render(gotSlot) {
		return label + ":views_differ", fmt.Sprintf("by name %s, by slot %s", render(got), render(gotSlot)), valid
	}
	if !valid {
		if completed {
			return label + ":invalid_accepted", fmt.Sprintf("operands/encoding do not denote a valid field or string, but the instruction succeeded and recorded %s", render(got)), valid
		}
		if len(got) != 0 {
			return label + ":invalid_recorded", fmt.Sprintf("rejected instruction still recorded %s", render(got)), valid
		}
		return "", "", valid
	}
	if !completed {
		return label + ":valid_rejected", fmt.Sprintf("well-formed journal (expected value %x) halted the frame: err=%v", expect, err), valid
	}
	if len(got) != 1 || len(got[0]) != 1 || !bytes.Equal(got[0][0], expect) {
		class := "wrong_value"
		if c.Kind == "ref" {
			switch {
			case len(expect) < 32:
				class = "wrong_value_short"
			default:
				class = "wrong_value_long"
			}
		}
		return label + ":" + class, fmt.Sprintf("storage decodes to %x (%d bytes), recorded %s", expect, len(expect), render(got)), valid
	}
	// other accounts must have no entry
	if sc.Variable(libAddr, "x") != nil || sc.Balance(libAddr) != nil && c.Via == "direct" {
		return label + ":foreign_entry", "an entry exists under the code account", valid
	}
	return "", "", valid
}

func c09Slots() []*uint256.Int {
	h1 := u256(common.HexToHash("0xc2575a0e9e593c00f959f8c92f12db2869c3395a3b0502d05e2516446f71f85b"))
	h2 := u256(common.HexToHash("0x00575a0e9e593c00f959f8c92f12db2869c3395a3b0502d05e2516446f71f85b"))
	return []*uint256.Int{uint256.NewInt(0), uint256.NewInt(1), uint256.NewInt(5), uint256.NewInt(255), new(uint256.Int).Lsh(uint256.NewInt(1), 64), h1, h2}
}

// c09CarrySlots are small slots whose data-slot base keccak256(pad32(slot)) ends in ..fd, ..ff, ..fe, ..ffff, ..fffe,
// ..feff, ..fffffe, ..ffffff (found by cmd/mineslots): the data slots of a 2-5 word string stored there cross one, two
// or three byte boundaries of the slot counter. The suffixes are re-verified on every run.
var c09CarrySlots = []struct {
	Slot   uint64
	Suffix []byte
}{{14, []byte{0xfd}}, {165, []byte{0xff}}, {284, []byte{0xfe}}, {17573, []byte{0xff, 0xff}}, {81056, []byte{0xff, 0xfe}}, {88193, []byte{0xfe, 0xff}},
	{12981658, []byte{0xff, 0xff, 0xfe}}, {34983319, []byte{0xff, 0xff, 0xff}}}

func c09VerifyCarrySlots() {
	for _, c := range c09CarrySlots {
		base := crypto.Keccak256(common.BigToHash(new(big.Int).SetUint64(c.Slot)).Bytes())
		if !bytes.HasSuffix(base, c.Suffix) {
			panic(fmt.Sprintf("carry slot %d: base %x does not end in %x", c.Slot, base, c.Suffix))
		}
	}
}

func c09WordsFor(thorough bool) []common.Hash {
	w := c09Words()
	if thorough {
		w = append(w,
			common.HexToHash("0x8000000000000000000000000000000000000000000000000000000000000001"),
			common.HexToHash("0xfedcba9876543210fedcba9876543210fedcba9876543210fedcba9876543210"),
			common.HexToHash("0x00ff00ff00ff00ff00ff00ff00ff00ff00ff00ff00ff00ff00ff00ff00ff00ff"),
			common.HexToHash("0x0000000000000000000000000000000100000000000000000000000000000000"))
	}
	return w
}

func c09Words() []common.Hash {
	return []common.Hash{gen.Pattern, {}, common.HexToHash("0xffffffffffffffffffffffffffffffffffffffffffffffffffffffffffffffff"),
		common.HexToHash("0x0000000000000000000000000000000000000000000000000000000000c0ffee"), common.HexToHash("0x00000000000000000000000000000000000000000000000000000000000000ff")}
}

func c09Contents(n int) map[string][]byte {
	distinct := gen.PatternBytes(n)
	out := map[string][]byte{"distinct": distinct, "allzero": make([]byte, n)}
	if n > 0 {
		lz := append([]byte{}, distinct...)
		lz[0] = 0
		if n > 2 {
			lz[1] = 0
		}
		out["leadzero"] = lz
		tz := append([]byte{}, distinct...)
		tz[n-1] = 0
		out["trailzero"] = tz
	}
	return out
}

func c09ForEach(w *fw.W, fn func(c *c09Case)) {
	th := w.Thorough()
	forks := []world.Fork{world.Shanghai}
	if th {
		forks = []world.Fork{world.Frontier, world.Byzantium, world.Shanghai, world.Cancun}
	}
	type variant struct {
		Via           string
		Static, Fresh bool
	}
	variants := []variant{{"direct", false, false}, {"direct", true, false}, {"direct", false, true}, {"delegatecall", false, false}, {"callcode", false, true}, {"delegatecall", true, false}}
	// offsets/widths: every value in [0,34] plus large boundary values
	var ow []*uint256.Int
	for i := uint64(0); i <= 34; i++ {
		ow = append(ow, uint256.NewInt(i))
	}
	bigs := []*uint256.Int{uint256.NewInt(256), new(uint256.Int).SetUint64(^uint64(0)), new(uint256.Int).Lsh(uint256.NewInt(1), 64), new(uint256.Int).SetAllOne()}
	ow = append(ow, bigs...)
	slots := c09Slots()
	// carry slots: long strings whose data slots cross byte boundaries of the slot counter
	c09VerifyCarrySlots()
	for _, f := range forks {
		cvs := []variant{{"direct", false, false}}
		if th && f >= world.Byzantium {
			cvs = append(cvs, variant{"delegatecall", false, false})
		}
		for _, v := range cvs {
			for _, cs := range c09CarrySlots {
				maxLen := 130
				if th {
					maxLen = 300
				}
				for n := 33; n <= maxLen; n++ {
					if !w.Mine() {
						continue
					}
					if w.Expired() {
						return
					}
					slot := uint256.NewInt(cs.Slot)
					fn(&c09Case{Kind: "ref", Fork: f, Via: v.Via, Static: v.Static, Fresh: v.Fresh, Slot: hb(slot), Data: gen.PatternBytes(n),
						Note: fmt.Sprintf("ref %s via=%s carry slot=%d (data-slot base ends in %x) len=%d", f, v.Via, cs.Slot, cs.Suffix, n)})
				}
			}
		}
	}
	for _, f := range forks {
		if f < world.Byzantium {
			variants = []variant{{"direct", false, false}, {"direct", false, true}}
		}
		for _, v := range variants {
			for si, slot := range slots {
				if !th && si%2 == 1 && v.Via != "direct" {
					continue
				}
				for wi, word := range c09WordsFor(th) {
					if !th && wi > 1 && (v.Via != "direct" || v.Static) {
						continue
					}
					for _, off := range ow {
						for _, width := range ow {
							if !w.Mine() {
								continue
							}
							if w.Expired() {
								return
							}
							fn(&c09Case{Kind: "value", Fork: f, Via: v.Via, Static: v.Static, Fresh: v.Fresh, Slot: hb(slot), Off: hb(off), Width: hb(width), Word: word,
								Note: fmt.Sprintf("value %s via=%s static=%v fresh=%v slot=%s off=%s width=%s word=%x", f, v.Via, v.Static, v.Fresh, slot.Hex(), off.Hex(), width.Hex(), word[:])})
							if v.Via == "direct" && !v.Static && !v.Fresh && wi == 0 && si < 2 {
								fn(&c09Case{Kind: "value", Fork: f, Via: v.Via, Again: true, Slot: hb(slot), Off: hb(off), Width: hb(width), Word: word,
									Note: fmt.Sprintf("value %s via=%s announced again slot=%s off=%s width=%s word=%x", f, v.Via, slot.Hex(), off.Hex(), width.Hex(), word[:])})
							}
						}
					}
				}
				// reference journal: every length 0..130 x content patterns
				maxLen := 130
				if th {
					maxLen = 300
				}
				for n := 0; n <= maxLen; n++ {
					for name, data := range c09Contents(n) {
						if !w.Mine() {
							continue
						}
						if w.Expired() {
							return
						}
						fn(&c09Case{Kind: "ref", Fork: f, Via: v.Via, Static: v.Static, Fresh: v.Fresh, Slot: hb(slot), Data: data,
							Note: fmt.Sprintf("ref %s via=%s static=%v fresh=%v slot=%s len=%d content=%s", f, v.Via, v.Static, v.Fresh, slot.Hex(), n, name)})
						if v.Via == "direct" && !v.Static && !v.Fresh && name == "distinct" && si < 2 {
							fn(&c09Case{Kind: "ref", Fork: f, Via: v.Via, Again: true, Slot: hb(slot), Data: data,
								Note: fmt.Sprintf("ref %s via=%s announced again slot=%s len=%d", f, v.Via, slot.Hex(), n)})
						}
					}
				}
				// invalid and unusual head words
				heads := []common.Hash{
					common.HexToHash("0x6162000000000000000000000000000000000000000000000000000000000040"), // short form, length 32
					common.HexToHash("0x61620000000000000000000000000000000000000000000000000000000000fe"), // short form, length 127
					common.HexToHash("0x6162000000000000000000000000000000000000000000000000000000000100"), // short form, bits above the length byte
					common.HexToHash("0x6162000000000000000000000000000000000000000000000000000000000080"), // short form, length 64
					common.HexToHash("0x61620000000000000000000000000000000000000000000000000000000000a2"), // short form, length 81
					common.HexToHash("0x616200000000000000000000000000000000000000000000000000000000003e"), // short form, length 31 (valid)
					common.BigToHash(big.NewInt(1)),  // long form, length 0
					common.BigToHash(big.NewInt(3)),  // long form, length 1
					common.BigToHash(big.NewInt(63)), // long form, length 31
					common.BigToHash(big.NewInt(65)), // long form, length 32, data slots empty
				}
				for i := range heads {
					if !w.Mine() {
						continue
					}
					h := heads[i]
					fn(&c09Case{Kind: "ref", Fork: f, Via: v.Via, Static: v.Static, Fresh: v.Fresh, Slot: hb(slot), RawHead: &h,
						Note: fmt.Sprintf("ref %s via=%s static=%v fresh=%v slot=%s head=%x", f, v.Via, v.Static, v.Fresh, slot.Hex(), h[:])})
				}
			}
		}
	}
}

func init() {
	register(&Check{
		ID:        "C09",
		Level:     "model_checking",
		Technique: "complete enumeration of (storage word, offset, width) and (string length, content pattern, slot) products, each journaled by a generated program on the real interpreter (direct, DELEGATECALL, CALLCODE, static, value written just before), compared with a reference Solidity storage-layout decoder",
		Rule: "value journal: 5 words x every (offset, width) in ([0,34] + {256, 2^64-1, 2^64, 2^256-1})^2 x 7 slots (small, 2^64, hashed, hashed with leading zero byte) x variants {direct, static, SSTORE-just-before, via DELEGATECALL, via CALLCODE with fresh store, static+DELEGATECALL}; reference journal: every length 0..130 x {distinct, leading zeros, all zero, trailing zero} x slots x variants + 10 invalid/unusual head words + every length 33..130 at 8 slots whose data-slot base ends in fd/fe/ff/ffff/fffe/feff/fffffe/ffffff (the slot counter carries over 1-3 bytes). The code account of the DELEGATECALL/CALLCODE variants holds complemented words at the same slots. Each direct case over the first two slots also with the variable announced twice before and once after the journal instruction. Oracle: recorded bytes (by name and by slot) == reference decoder applied to the executing contract's storage at the journal step; invalid field/encoding => frame fails and nothing is recorded. non-trivial = distinct cases whose operands/encoding are valid (a value must be recorded)",
		Assumptions: []string{"strings longer than 130 bytes and storage words outside the 5-word alphabet are not covered", "quick tier thins slots/words for the indirect variants (bounds in evidence)"},
		Bounds: func(t string) map[string]any {
			return map[string]any{"offset_width_values": 39, "string_lengths": map[string]string{"quick": "0..130", "thorough": "0..300"}[t], "slots": 7, "forks": map[string]int{"quick": 1, "thorough": 4}[t]}
		},
		Quick:    60 * time.Second,
		Thorough: 20 * time.Minute,
		Run: func(w *fw.W) {
			c09ForEach(w, func(c *c09Case) {
				sig, detail, valid := c09Run(c)
				w.Evals++
				w.Transitions++
				h := fw.Hash(c.Note)
				w.State(h)
				if valid {
					w.Nontrivial(h)
				}
				w.Extra("cases_"+c.Kind, 1)
				if w.Evals%20011 == 1 {
					w.Sample(c)
				}
				if sig != "" {
					stable := true
					for i := 0; i < 4; i++ {
						if s2, _, _ := c09Run(c); s2 != sig {
							stable = false
						}
					}
					if !stable {
						// the verdict changes between executions of one case: either the harness is not deterministic or
						// the outcome depends on what the process ran before. The second is itself a violation (the journaled
						// value must equal the storage content, whatever ran before) provided it is reproducible as a history:
						// the same case four times in a row must fail every time the group is run.
						h := *c
						h.Repeat = 4
						for i := 0; i < 3; i++ {
							if s2, _ := c09RunRepeated(&h); s2 == "" {
								w.Notes = append(w.Notes, "UNREPRODUCED: C09 violation did not reproduce: "+c.Note)
								return
							}
						}
						s3, d3 := c09RunRepeated(&h)
						w.Violate("history_dependent:"+s3, d3+"\n"+c.Note, &h)
						return
					}
					w.Violate(sig, detail+"\n"+c.Note, c)
				}
			})
		},
		Replay: func(raw json.RawMessage) []fw.Violation {
			var c c09Case
			if err := json.Unmarshal(raw, &c); err != nil {
				panic(err)
			}
			sig, detail := c09RunRepeated(&c)
			if sig == "" {
				return nil
			}
			if c.Repeat > 1 {
				sig = "history_dependent:" + sig
			}
			return []fw.Violation{{Sig: sig, Detail: detail, Case: raw}}
		},
	})
}
