package checks

import (
	"context"
	"encoding/json"
	"fmt"
	"os"
	"os/exec"
	"path/filepath"
	"strings"
	"time"

	avm "github.com/artela-network/artela-evm/vm"
	"verif/fw"
	"verif/scn"
	"verif/world"
)

// C06 — gas passes through join points without being created, lost or misreported.

// nodeGasView is what the debug-tracer events show about one entered CALL/CREATE frame.
type nodeGasView struct {
	Supplied     uint64 // gas of the enter event
	FirstStepGas uint64 // gas before the callee's first instruction
	HasStep      bool
	Returned     uint64 // gas the caller got back, computed from the caller's steps around the call (top level: entry point)
	HasReturned  bool
}

// gasViews walks the interleaved event log.
func gasViews(r *scn.Run) []nodeGasView {
	type open struct {
		idx        int // index into out, -1 for frames that are not call-tree nodes
		callerGas  uint64
		callerCost uint64
		depth      int // depth of the caller's steps
	}
	var out []nodeGasView
	var stack []open
	lastStep := map[uint64][2]uint64{} // depth -> (gas, cost) of the last call-type step
	pending := map[uint64]int{}        // caller depth -> node index awaiting the caller's next step
	pendingBase := map[uint64]uint64{}
	inv := 0
	for _, l := range r.Events() {
		switch {
		case strings.HasPrefix(l, "S "):
			d, _ := fieldOf(l, "d")
			g, _ := fieldOf(l, "gas")
			c, _ := fieldOf(l, "cost")
			if i, ok := pending[d]; ok {
				out[i].Returned, out[i].HasReturned = g-pendingBase[d], true
				delete(pending, d)
			}
			if len(stack) > 0 {
				top := stack[len(stack)-1]
				if top.idx >= 0 && !out[top.idx].HasStep && int(d) == top.depth+1 {
					out[top.idx].FirstStepGas, out[top.idx].HasStep = g, true
				}
			}
			if strings.Contains(l, " op=f1 ") || strings.Contains(l, " op=f0 ") || strings.Contains(l, " op=f5 ") || strings.Contains(l, " op=f2 ") || strings.Contains(l, " op=f4 ") || strings.Contains(l, " op=fa ") {
				lastStep[d] = [2]uint64{g, c}
			}
		case strings.HasPrefix(l, "B "):
			g, _ := fieldOf(l, "gas")
			out = append(out, nodeGasView{Supplied: g})
			stack = append(stack, open{idx: len(out) - 1, depth: 0})
		case strings.HasPrefix(l, "> "):
			g, _ := fieldOf(l, "gas")
			d := uint64(len(stack)) // steps of the caller run at this depth
			o := open{idx: -1, depth: int(d)}
			if strings.Contains(l, "typ=f1 ") || strings.Contains(l, "typ=f0 ") || strings.Contains(l, "typ=f5 ") {
				out = append(out, nodeGasView{Supplied: g})
				o.idx = len(out) - 1
			}
			ls := lastStep[d]
			o.callerGas, o.callerCost = ls[0], ls[1]
			if strings.Contains(l, "typ=f0 ") || strings.Contains(l, "typ=f5 ") {
				// the gas of a create is deducted inside the instruction, not part of its step cost
				o.callerCost += g
			}
			stack = append(stack, o)
		case strings.HasPrefix(l, "< "):
			if len(stack) > 0 {
				top := stack[len(stack)-1]
				stack = stack[:len(stack)-1]
				if top.idx >= 0 {
					pending[uint64(top.depth)] = top.idx
					pendingBase[uint64(top.depth)] = top.callerGas - top.callerCost
				}
			}
		case strings.HasPrefix(l, "E "):
			if len(stack) > 0 {
				top := stack[len(stack)-1]
				stack = stack[:len(stack)-1]
				if top.idx >= 0 && inv < len(r.Invs) {
					out[top.idx].Returned, out[top.idx].HasReturned = r.Invs[inv].Gas, true
				}
			}
			inv++
		}
	}
	return out
}

func c06Judge(s *scn.Scn, r *scn.Run, m *scn.MResult) (sig, detail string) {
	if p := anyPanic(r); p != "" {
		return "panic", p
	}
	views := gasViews(r)
	ct := r.Env.EVM.Tracer().CallTree()
	// firings grouped per node: last pre / last post answer and gas
	type jp struct {
		preOut, postOut   uint64
		preN, postN       int
		preFail, postFail *scn.Answer
	}
	per := map[uint64]*jp{}
	for i := range r.Firings {
		f := &r.Firings[i]
		if f.Err == "provider" && f.Aspect == ([20]byte{}) {
			// provider failure: find the node through the model firing at the same position
			if i < len(m.Firings) {
				j := per[uint64(m.Firings[i].Index)]
				if j == nil {
					j = &jp{}
					per[uint64(m.Firings[i].Index)] = j
				}
				a := f.Answer
				if f.Pre {
					j.preFail = &a
				} else {
					j.postFail = &a
				}
			}
			continue
		}
		if f.GasOut > f.GasIn {
			return "harness", "stub answered with more gas than it was given"
		}
		j := per[f.Index]
		if j == nil {
			j = &jp{}
			per[f.Index] = j
		}
		a := f.Answer
		if f.Pre {
			j.preOut, j.preN = f.GasOut, j.preN+1
			if a.Fails() {
				j.preFail = &a
			}
		} else {
			j.postOut, j.postN = f.GasOut, j.postN+1
			if a.Fails() {
				j.postFail = &a
			}
		}
	}
	vi := 0
	for i, n := range m.Nodes {
		c := ct.FindCall(uint64(i))
		if c == nil {
			return "", "" // C07/C08 report missing nodes
		}
		if c.Gas != nil && c.Gas.IsUint64() && c.RemainingGas > c.Gas.Uint64() {
			return "gas_created:node", fmt.Sprintf("node %d records %d gas handed back of %d supplied", i, c.RemainingGas, c.Gas.Uint64())
		}
		if n.Refused != "" {
			continue
		}
		if vi >= len(views) {
			return "harness", "fewer frames in the event log than entered nodes"
		}
		v := views[vi]
		vi++
		if v.HasReturned && v.Returned > v.Supplied {
			return "gas_created:returned", fmt.Sprintf("node %d: the caller got %d gas back from a frame that was given %d", i, v.Returned, v.Supplied)
		}
		j := per[uint64(i)]
		if j == nil {
			continue
		}
		name := fmt.Sprintf("node %d (%s)", i, n)
		// (i) callee starts with what the pre join point left
		if j.preN > 0 && j.preFail == nil && v.HasStep && v.FirstStepGas != j.preOut {
			return "pre_gas_not_deducted", fmt.Sprintf("%s: the pre join point left %d gas, the callee's first instruction sees %d", name, j.preOut, v.FirstStepGas)
		}
		// (v) out of gas at either join point: the EVM's own error, nothing handed back
		oog := j.preFail != nil && j.preFail.Kind == 1 || j.preFail == nil && j.postFail != nil && j.postFail.Kind == 1
		if oog {
			if c.Err != avm.ErrOutOfGas {
				return "oog_identity", fmt.Sprintf("%s: a join point ran out of gas, the call's error is %v (%T), not the EVM's out-of-gas error value", name, c.Err, c.Err)
			}
			if v.HasReturned && v.Returned != 0 {
				return "oog_gas_returned", fmt.Sprintf("%s: a join point ran out of gas, the caller still got %d gas back", name, v.Returned)
			}
			continue
		}
		if j.preFail != nil {
			continue // leftover after another pre failure is not determined by the statement (only <= supplied, above)
		}
		if j.postFail != nil {
			if j.postFail.Kind != 2 {
				// (vi) any other post failure that is not a revert forfeits the frame's gas
				if v.HasReturned && v.Returned != 0 {
					return "post_failure_gas_returned", fmt.Sprintf("%s: the post join point failed (kind %d), the caller still got %d gas back", name, j.postFail.Kind, v.Returned)
				}
			}
			continue
		}
		// (ii) the caller gets back what the post join point left when the frame succeeded or reverted
		if j.postN > 0 && v.HasReturned {
			frameOK := n.OK || n.Reverted
			if frameOK && v.Returned != j.postOut {
				return "post_gas_not_returned", fmt.Sprintf("%s: the post join point left %d gas, the caller got %d back", name, j.postOut, v.Returned)
			}
			if !frameOK && v.Returned != 0 {
				return "halt_gas_returned", fmt.Sprintf("%s: the frame halted exceptionally, the caller got %d gas back", name, v.Returned)
			}
		}
	}
	// Aspect exit events report the gas each Aspect left: must equal what the stub answered
	var aspectOut []uint64
	for _, l := range r.Rec.Aspect {
		if strings.HasPrefix(l, "A< ") {
			g, _ := fieldOf(l, "gas")
			aspectOut = append(aspectOut, g)
		}
	}
	k := 0
	for _, f := range r.Firings {
		if f.Err == "provider" && f.Aspect == ([20]byte{}) {
			continue
		}
		if k < len(aspectOut) && aspectOut[k] != f.GasOut {
			return "misreported", fmt.Sprintf("Aspect execution %d left %d gas, the Aspect exit event reports %d", k, f.GasOut, aspectOut[k])
		}
		k++
	}
	return "", ""
}

// c06Conservation: for answer vectors that only burn finite amounts, in executions where no frame halts, the
// top-level leftover equals the leftover of the burn-free execution minus the sum of the burns.
func c06Conservation(s *scn.Scn, r *scn.Run, m *scn.MResult, modes []bool) (sig, detail string) {
	var sum uint64
	for _, a := range r.Answers {
		if a.Kind != 0 || a.Burn == scn.BurnAll {
			return "", ""
		}
		sum += a.Burn
	}
	if sum == 0 || len(r.Invs) != 1 {
		return "", ""
	}
	for _, l := range r.Events() {
		if (strings.HasPrefix(l, "< ") || strings.HasPrefix(l, "E ")) && !strings.HasSuffix(l, "err=-") && !strings.HasSuffix(l, "err=execution reverted") {
			return "", "" // a halting frame forfeits its gas whatever was burnt
		}
	}
	base, _ := replayScnSeq(s, nil, modes, false)
	if len(base.Invs) != 1 || base.Invs[0].Panic != "" {
		return "", ""
	}
	if base.Invs[0].Gas-r.Invs[0].Gas != sum {
		return "conservation", fmt.Sprintf("Aspects burnt %d gas in total; leftover without burns %d, with burns %d (difference %d)", sum, base.Invs[0].Gas, r.Invs[0].Gas, base.Invs[0].Gas-r.Invs[0].Gas)
	}
	return "", ""
}

// c06SwitchOff: an execution in which every Aspect answers "ok, nothing burnt" must hand out and hand back exactly
// the gas of the same execution with the join-point switch off (the mode in which calls issued by Aspects run): the
// step-by-step gas of every instruction and the top-level leftover are equal.
func c06SwitchOff(s *scn.Scn, r *scn.Run) (sig, detail string) {
	if len(r.Invs) != 1 || r.Invs[0].Panic != "" {
		return "", ""
	}
	for _, a := range r.Answers {
		if a.Kind != 0 || a.Burn != 0 {
			return "", ""
		}
	}
	off, _ := replayScnSeq(s, nil, []bool{false}, false)
	if len(off.Invs) != 1 || off.Invs[0].Panic != "" {
		return "", ""
	}
	steps := func(ev []string) []string {
		var out []string
		for _, l := range ev {
			if strings.HasPrefix(l, "S ") || strings.HasPrefix(l, "> ") || strings.HasPrefix(l, "< ") || strings.HasPrefix(l, "B ") || strings.HasPrefix(l, "E ") {
				out = append(out, l)
			}
		}
		return out
	}
	on, of := steps(r.Events()), steps(off.Events())
	for i := 0; i < len(on) && i < len(of); i++ {
		if on[i] != of[i] {
			return "switch_off:gas", fmt.Sprintf("event %d differs between join points on (Aspects burning nothing) and off\non:  %s\noff: %s", i, on[i], of[i])
		}
	}
	if len(on) != len(of) || off.Invs[0].Gas != r.Invs[0].Gas {
		return "switch_off:gas", fmt.Sprintf("join points on (nothing burnt): %d events, leftover %d; switch off: %d events, leftover %d", len(on), r.Invs[0].Gas, len(of), off.Invs[0].Gas)
	}
	// the same with the largest gas limit an entry point accepts (amounts above 2^63 must pass through the join points
	// unchanged as well)
	none := func(int, bool) scn.Answer { return scn.Answer{} }
	hOn := scn.Exec(s, scn.RunOpts{TopGas: ^uint64(0), Modes: []bool{true}, Answer: none})
	hOff := scn.Exec(s, scn.RunOpts{TopGas: ^uint64(0), Modes: []bool{false}, Answer: none})
	if len(hOn.Invs) == 1 && len(hOff.Invs) == 1 && hOn.Invs[0].Panic == "" && hOff.Invs[0].Panic == "" {
		a, b := steps(hOn.Events()), steps(hOff.Events())
		for i := 0; i < len(a) && i < len(b); i++ {
			if a[i] != b[i] {
				return "switch_off:gas_above_2^63", fmt.Sprintf("top-level gas 2^64-1: event %d differs between join points on (nothing burnt) and off\non:  %s\noff: %s", i, a[i], b[i])
			}
		}
		if len(a) != len(b) || hOn.Invs[0].Gas != hOff.Invs[0].Gas {
			return "switch_off:gas_above_2^63", fmt.Sprintf("top-level gas 2^64-1: leftover %d with join points on (nothing burnt), %d with the switch off", hOn.Invs[0].Gas, hOff.Invs[0].Gas)
		}
	}
	return "", ""
}

func init() {
	c06 := &scnCheck{ID: "C06", Nontrivial: func(s *scn.Scn, r *scn.Run, m *scn.MResult) bool {
		for _, a := range r.Answers {
			if a.Kind != 0 || a.Burn != 0 {
				return true
			}
		}
		return false
	},
		Judge: func(s *scn.Scn, r *scn.Run, m *scn.MResult) (string, string) {
			if sig, d := c06Judge(s, r, m); sig != "" {
				return sig, d
			}
			if sig, d := c06Conservation(s, r, m, nil); sig != "" {
				return sig, d
			}
			return c06SwitchOff(s, r)
		},
		Opts: func(tier string) (*scnOpts, int, [][]bool) {
			o := &scnOpts{Forks: []world.Fork{world.Shanghai}, Answers: answerAlphabet, NAspects: []int{1, 2}, BoundAll: true, TopValues: []int{0, 1}}
			o.Gen = scn.GenOpts{MaxDepth: 2, Effects: []scn.Effect{scn.ENone, scn.ESstore}, PreEffects: []scn.Effect{scn.ENone}, Terms: []scn.Term{scn.TStop, scn.TReturn, scn.TRevert, scn.TInvalid},
				Kinds: []scn.Kind{scn.KCall, scn.KDelegateCall, scn.KStaticCall, scn.KCreate}, Values: []int{0, 1}, Targets: []scn.Target{scn.TgChild, scn.TgCodeless}}
			bound := 2
			if tier == "thorough" {
				o.Forks = threeFork
				o.Gen.Kinds, o.Gen.Terms, o.Gen.Targets = allKinds, allTerms, allTgts
				bound = 3
			}
			return o, bound, [][]bool{nil}
		},
		More: func(tier string) []scnFamily {
			f := chainFamily(tier, []scn.Effect{scn.ENone}, func(o *scnOpts) { o.Answers = answerAlphabet })
			if tier == "thorough" {
				f.Bound = 2
			}
			return []scnFamily{f}
		}}
	register(&Check{ID: "C06", Level: "fault_enumeration",
		Technique: "bounded exhaustive enumeration of scenario call trees x 1-2 Aspects per join point x answer vectors (burn 0/1/100/all gas, out of gas, revert, other failure, provider failure; deviation-bounded) executed on the real EVM with a scripted Aspect runtime; gas seen by the callee's first instruction, gas handed back to each caller (from the caller's own step gas around the call) and recorded leftovers are checked against what the join points left, plus a differential conservation check against the burn-free execution",
		Rule:      "scenario trees (depth 2 full, depth 3 chains) with Aspects bound to every contract x answers with <= k deviations. Oracle per call: callee's first-step gas == gas left by the last pre Aspect; gas returned to the caller == gas left by the last post Aspect when the frame succeeded or reverted, 0 when it halted; out-of-gas at either join point => the identical vm.ErrOutOfGas value and 0 returned; any other non-revert post failure => 0 returned; no node and no caller ever sees more gas handed back than supplied; Aspect exit events report exactly the gas each Aspect left; with finite burns and no halting frame, top-level leftover == burn-free leftover - sum of burns; with nothing burnt and nothing failing, every instruction's gas and the leftover equal those of the same execution with the join-point switch off, also with a top-level gas limit of 2^64-1. non-trivial = distinct executions with at least one non-default answer",
		Assumptions: []string{"the scripted runtime never answers with more gas than it was given (the real runtime's contract)", "leftover after a non-out-of-gas pre failure and after an Aspect revert is not judged beyond 'not more than supplied'"},
		Bounds:      func(t string) map[string]any { _, b, _ := c06.Opts(t); return map[string]any{"answer_deviation_bound": b, "answers": len(answerAlphabet)} },
		Quick:       80 * time.Second, Thorough: 40 * time.Minute, Replay: c06.replay,
		Run: func(w *fw.W) {
			c06.run(w)
			realConformanceShard(w)
		}})
}

// realConformanceShard runs this worker's shard of the real-runtime conformance (auxiliary: the same scenario
// executions with Aspects on the real aspect-runtime/wasmtime, judged by the oracles of C04-C08 and C13).
func realConformanceShard(w *fw.W) {
	bin := filepath.Join(os.Getenv("VERIF_ROOT"), "build", "vcheck-real")
	if _, err := os.Stat(bin); err != nil {
		w.Extra("real_runtime_conformance_skipped", 1)
		return
	}
	ctx, cancel := context.WithTimeout(context.Background(), 10*time.Minute)
	defer cancel()
	out, err := exec.CommandContext(ctx, bin, "-realconf", "-worker", fmt.Sprint(w.Idx), "-of", fmt.Sprint(w.N), "-tier", w.Tier).Output()
	if err != nil {
		w.Notes = append(w.Notes, "real-runtime conformance shard failed to run: "+err.Error())
		w.Extra("real_runtime_conformance_failed_to_run", 1)
		return
	}
	for _, l := range strings.Split(string(out), "\n") {
		var v struct {
			Sig        string          `json:"sig"`
			Detail     string          `json:"detail"`
			Case       json.RawMessage `json:"case"`
			Summary    bool            `json:"summary"`
			Executions int64           `json:"executions"`
			Aspects    int64           `json:"aspect_executions"`
		}
		if json.Unmarshal([]byte(l), &v) != nil {
			continue
		}
		switch {
		case v.Summary:
			w.Extra("real_runtime_executions", v.Executions)
			w.Extra("real_runtime_aspect_executions", v.Aspects)
			w.Evals += v.Executions
		case v.Sig == "real_runtime:C08:data_aliases_caller_memory":
			w.Extra("real_runtime_known_f5_observed", 1) // the open C08 finding, not a property of the runtime
		case v.Sig != "":
			w.Violate(v.Sig, v.Detail, map[string]any{"real_runtime_case": v.Case})
		}
	}
}

var _ = fw.Hash
