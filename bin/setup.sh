#!/bin/bash
# MANIFEST.setup_cmd: build the harness binaries once so that later checks only do incremental builds.
set -euo pipefail
cd "$(dirname "$0")/.."
. bin/env.sh
mkdir -p build evidence replays
bin/build.sh main
bin/build.sh map
bin/build.sh race
bin/build.sh real
echo "setup ok"
