#!/bin/bash
# MANIFEST.setup_cmd: build the harness binaries once so that later checks only do incremental builds.
set -euo pipefail
cd "$(dirname "$0")/.."
. bin/env.sh
mkdir -p build evidence replays
bin/build.sh main
[ -f overlays/mk_runtime_map.py ] && bin/build.sh map || true
echo "setup ok"
