#!/usr/bin/env python3
"""Regenerates seeded/README.md and the detected_by field of every seeded/<id>/meta.json from seeded/<id>/detected.txt
(written by bin/seedmatrix.sh)."""
import json, os, re
root = os.path.join(os.path.dirname(os.path.abspath(__file__)), "..", "seeded")
rows = []
for sid in sorted(os.listdir(root)):
    d = os.path.join(root, sid)
    if not os.path.isfile(os.path.join(d, "meta.json")):
        continue
    meta = json.load(open(os.path.join(d, "meta.json")))
    det = []
    if os.path.exists(os.path.join(d, "detected.txt")):
        for line in open(os.path.join(d, "detected.txt")):
            m = re.match(r"(\S+) vs (\S+): exit=(\d+)\s*(.*)", line.strip())
            if not m:
                continue
            sigs = [x for x in m.group(4).replace("violation sig=", "").split() if x]
            if m.group(3) == "1":
                det.append(f"{m.group(2)} ({', '.join(sigs[:3])})")
            else:
                det.append(f"{m.group(2)}: not reported")
    meta["detected_by"] = det
    json.dump(meta, open(os.path.join(d, "meta.json"), "w"), indent=1)
    title = ""
    notes = os.path.join(d, "notes.md")
    if os.path.exists(notes):
        for line in open(notes):
            if line.strip():
                title = line.strip().lstrip("# ").strip()
                break
    rows.append((sid, meta["breaks_property"], ", ".join(meta["touched_files"]), title[:110], "; ".join(det)))
with open(os.path.join(root, "README.md"), "w") as f:
    f.write("# Independent property-breaking changes used to test the checks\n\n")
    f.write("Each directory holds `patch.diff` (applies to /repo HEAD), the sub-agent's demonstration test, `notes.md` (what the change needs to manifest), `meta.json` (confirmation record: builds, all 1125 baseline-stable tests pass with it, demo fails with / passes without) and `detected.txt` (outcome of `bin/seedmatrix.sh`). Sub-agents saw only the property text and their own scratch worktree. Suffix b / c = second / third round (each told to avoid the sites of the earlier rounds).\n\n")
    f.write("| id | property | file | change | reported by |\n|---|---|---|---|---|\n")
    for r in rows:
        f.write("| " + " | ".join(r) + " |\n")
print(len(rows), "seeds")
