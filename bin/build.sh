#!/bin/bash
# Builds the harness binaries from /repo's CURRENT working tree (module replace => /repo) with the overlays:
#   build/vcheck       tags verif           overlay: stub Aspect runner + private-state export file in package vm
#   build/vcheck-map   tags verif,maphook   + runtime/map.go with an explorable iteration start offset   (C16)
#   build/vcheck-race  tags verif, -race                                                            (C17 auxiliary)
# usage: build.sh [main|map|race ...]   (default: main)
set -euo pipefail
cd "$(dirname "$0")/.."
. bin/env.sh
V="$VERIF_ROOT"; R="$REPO_ROOT"
mkdir -p "$V/build"
cd "$V/harness"
cp "$R/go.sum" go.sum
# the harness module must resolve /repo through its replace directive
if [ "$R" != "/repo" ]; then
  sed "s#=> /repo#=> $R#" go.mod > "$V/build/go.alt.mod"; cp go.sum "$V/build/go.alt.sum"
  MODFLAG="-modfile=$V/build/go.alt.mod"
else
  MODFLAG=""
fi
AC=$(go list $MODFLAG -m -f '{{.Dir}}' github.com/artela-network/aspect-core)
GOROOT_DIR=$(go env GOROOT)
# The export file reads private fields of the recorder. If /repo changed their representation, the primary variant
# stops compiling; the reflective fallback is used instead (checks see vm.VerifDegraded and say so in their evidence).
EXPORT="$V/overlays/vm_export.go.txt"
pick_export() {
  mkdir -p "$V/build/probe"
  echo "{\"Replace\":{\"$R/vm/zz_verif_export.go\":\"$V/overlays/vm_export.go.txt\"}}" > "$V/build/probe/overlay.json"
  if ! go build $MODFLAG -tags verif -overlay "$V/build/probe/overlay.json" -o /dev/null github.com/artela-network/artela-evm/vm > "$V/build/probe/full.log" 2>&1; then
    if grep -q "vm_export.go.txt" "$V/build/probe/full.log"; then
      echo "build.sh: the primary export overlay does not compile against $R/vm; using the reflective fallback" >&2
      EXPORT="$V/overlays/vm_export_min.go.txt"
    fi
  fi
}
pick_export
mk_overlay() { # $1 = output, $2 = with map hook
  {
    echo '{"Replace":{'
    echo "\"$AC/djpm/run/runner.go\":\"$V/overlays/runner_stub.go.txt\","
    if [ "$2" = 1 ]; then
      echo "\"$GOROOT_DIR/src/runtime/map.go\":\"$V/build/runtime_map_hooked.go\","
    fi
    echo "\"$R/vm/zz_verif_export.go\":\"$EXPORT\""
    echo '}}'
  } > "$1"
}
targets=("$@"); [ ${#targets[@]} -eq 0 ] && targets=(main)
for t in "${targets[@]}"; do
  case "$t" in
    main)
      mk_overlay "$V/build/overlay.json" 0
      go build $MODFLAG -tags verif -overlay "$V/build/overlay.json" -o "$V/build/vcheck" ./cmd/vcheck ;;
    map)
      python3 "$V/overlays/mk_runtime_map.py" "$GOROOT_DIR/src/runtime/map.go" "$V/build/runtime_map_hooked.go"
      mk_overlay "$V/build/overlay-map.json" 1
      go build $MODFLAG -tags verif,maphook -overlay "$V/build/overlay-map.json" -o "$V/build/vcheck-map" ./cmd/vcheck ;;
    real)
      # the real Aspect runner (no runner stub): conformance of the stub's answer table against aspect-runtime/wasmtime
      {
        echo '{"Replace":{'
        echo "\"$R/vm/zz_verif_export.go\":\"$EXPORT\""
        echo '}}'
      } > "$V/build/overlay-real.json"
      go build $MODFLAG -tags verif,realrunner -overlay "$V/build/overlay-real.json" -o "$V/build/vcheck-real" ./cmd/vcheck ;;
    race)
      mk_overlay "$V/build/overlay.json" 0
      go build $MODFLAG -race -tags verif -overlay "$V/build/overlay.json" -o "$V/build/vcheck-race" ./cmd/vcheck ;;
  esac
done
