#!/bin/bash
# unit tests of the exploration engine (exhaustiveness/uniqueness of Explore, divergence detection, scheduler
# interleaving counts, BFS)
cd "$(dirname "$0")/../harness" && . ../bin/env.sh && go test -vet=off -count=1 ./mc
