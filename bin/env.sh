# sourced by the /verif scripts: offline Go environment
export GOFLAGS=-mod=mod GOPROXY=off GOSUMDB=off GOTOOLCHAIN=local CGO_ENABLED=1
export VERIF_ROOT="${VERIF_ROOT:-/verif}"
export REPO_ROOT="${REPO_ROOT:-/repo}"
