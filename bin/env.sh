# sourced by the /verif scripts: offline Go environment
export GOFLAGS=-mod=mod GOPROXY=off GOSUMDB=off GOTOOLCHAIN=local CGO_ENABLED=1
export VERIF_ROOT="${VERIF_ROOT:-/verif}"
export REPO_ROOT="${REPO_ROOT:-/repo}"
# The harness builds replace a file inside the module cache (aspect-core/djpm/run/runner.go) through -overlay. The go
# command's module index (kept in the shared GOCACHE, keyed by the immutable module-cache path) must never be written
# from such a build: a later plain build of /repo would read the stub's import list for the real file and fail with
# "could not import strings". goindex=0 makes every go invocation of the harness neither read nor write that index.
export GODEBUG="${GODEBUG:+$GODEBUG,}goindex=0"
