#!/bin/bash
# usage: runall.sh [quick|thorough] [ID...]   runs the registered checks one after the other and prints one summary line each.
cd "$(dirname "$0")/.."
TIER="${1:-quick}"; shift || true
IDS=("$@")
if [ ${#IDS[@]} -eq 0 ]; then
  IDS=($(python3 -c "import json;print(' '.join(c['property_id'] for c in json.load(open('MANIFEST.json'))['checks']))"))
fi
for id in "${IDS[@]}"; do
  s=$(date +%s)
  out=$(bin/check "$id" --tier "$TIER" 2>&1); rc=$?
  e=$(( $(date +%s) - s ))
  echo "$id rc=$rc ${e}s :: $(echo "$out" | grep "^$id $TIER" | cut -c1-220)"
  [ $rc -ne 0 ] && echo "$out" | grep "VIOLATION\|HARNESS" | head -5
done
bin/validate.py | grep -v "^ok" || true
