#!/bin/bash
# usage: runthorough.sh ID:minutes ...   runs the thorough tier of the listed checks one after the other with the
# given time budgets (an internal deadline ends a check with exit 0 and exhaustive:false in its evidence).
cd "$(dirname "$0")/.."
for spec in "$@"; do
  id="${spec%%:*}"; min="${spec##*:}"
  s=$(date +%s)
  out=$(bin/check "$id" --tier thorough -budget "${min}m" 2>&1); rc=$?
  e=$(( $(date +%s) - s ))
  echo "$id rc=$rc ${e}s :: $(echo "$out" | grep "^$id thorough" | cut -c1-220)"
  [ $rc -ne 0 ] && echo "$out" | grep "VIOLATION\|HARNESS\|violation sig" | head -8
done
