#!/bin/bash
# usage: tryseed.sh <patch.diff> <ID> [ID...]   applies the patch to /repo, runs the quick checks, reverts.
set -uo pipefail
P="$1"; shift
cd /repo || exit 2
git apply --check "$P" || { echo "patch does not apply"; exit 2; }
git apply "$P"
trap 'git -C /repo checkout -- . ; git -C /repo status --short | head' EXIT
for id in "$@"; do
  echo "=== $id with $(basename $(dirname $P))"
  /verif/bin/check $id --tier ${TIER:-quick} 2>&1 | grep -v "^  " | tail -${TAIL:-12}
  echo "exit=$?"
done
