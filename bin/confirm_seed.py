#!/usr/bin/env python3
"""confirm_seed.py <ID> [<name>] : independently confirms a seeded change produced by a sub-agent in /tmp/seed/<ID>:
fresh scratch worktree of /repo, apply patch, build, full suite == baseline, demo fails with / passes without.
On success stores /verif/seeded/<name>/{patch.diff,demo files,meta.json}. Removes the scratch worktree."""
import json, os, subprocess, sys, shutil, re
ID = sys.argv[1]; NAME = sys.argv[2] if len(sys.argv) > 2 else ID
SRC = f"/tmp/seed/{ID}"; OUT = f"/tmp/seed/{ID}.out"; WT = f"/tmp/cs/{NAME}"
ENV = dict(os.environ, GOFLAGS="-mod=mod", GOPROXY="off", GOSUMDB="off", GOTOOLCHAIN="local")
def sh(cmd, cwd=None, check=False):
    r = subprocess.run(cmd, shell=True, cwd=cwd, env=ENV, capture_output=True, text=True)
    if check and r.returncode != 0:
        print(r.stdout[-3000:], r.stderr[-3000:]); sys.exit(f"FAILED: {cmd}")
    return r
os.makedirs("/tmp/cs", exist_ok=True)
sh(f"git -C /repo worktree remove --force {WT}"); shutil.rmtree(WT, ignore_errors=True)
sh(f"git -C /repo worktree add -q --detach {WT} HEAD", check=True)
res = {"id": NAME, "property": ID[:3]}
try:
    patch = f"{OUT}/patch.diff"
    if sh(f"git apply {patch}", cwd=WT).returncode != 0:
        sh(f"git apply -3 {patch}", cwd=WT, check=True)
        sh("git reset -q", cwd=WT)
        sh(f"git diff > {OUT}/patch.rebased.diff", cwd=WT)
        patch = f"{OUT}/patch.rebased.diff"
    touched = sh("git diff --name-only", cwd=WT).stdout.split()
    assert touched and not any(t.endswith("_test.go") for t in touched), touched
    sh("go build ./...", cwd=WT, check=True)
    # full suite vs baseline
    r = sh("go test -json -vet=off -count=1 -timeout 25m ./...", cwd=WT)
    passed = set()
    for line in r.stdout.splitlines():
        try: e = json.loads(line)
        except Exception: continue
        if e.get("Action") == "pass" and e.get("Test"):
            passed.add(f"{e['Package']}::{e['Test']}")
    base = json.load(open("/root/.vp/BASELINE.json"))["stable_pass"]
    missing = [t for t in base if t not in passed]
    res["suite_missing_vs_baseline"] = missing[:10]
    if missing: raise SystemExit(f"suite regressed: {missing[:5]}")
    # demo files = untracked files in the agent's worktree
    demos = [l[3:] for l in sh("git status --porcelain", cwd=SRC).stdout.splitlines() if l.startswith("??")]
    files = []
    for d in demos:
        p = os.path.join(SRC, d)
        if os.path.isdir(p):
            for root, _, fs in os.walk(p):
                for f in fs: files.append(os.path.relpath(os.path.join(root, f), SRC))
        else: files.append(d)
    files = [f for f in files if f.endswith(".go")]
    assert files, "no demo files"
    for f in files:
        os.makedirs(os.path.dirname(os.path.join(WT, f)), exist_ok=True); shutil.copy(os.path.join(SRC, f), os.path.join(WT, f))
    pkgs = sorted({"./" + os.path.dirname(f) for f in files})
    names = set()
    for f in files:
        names |= set(re.findall(r"^func (Test\w+)\(", open(os.path.join(SRC, f)).read(), re.M))
    runre = "^(" + "|".join(sorted(names)) + ")$"
    cmd = f"go test -vet=off -count=1 -run '{runre}' {' '.join(pkgs)}"
    w = sh(cmd, cwd=WT)
    sh(f"git apply -R {patch}", cwd=WT, check=True)
    wo = sh(cmd, cwd=WT)
    res.update(demo_cmd=cmd, demo_with_change_exit=w.returncode, demo_without_change_exit=wo.returncode, demo_files=files, touched=touched)
    if w.returncode == 0 or wo.returncode != 0:
        print(w.stdout[-1500:], wo.stdout[-1500:], wo.stderr[-800:]); raise SystemExit("demo does not discriminate")
    dst = f"/verif/seeded/{NAME}"; os.makedirs(dst, exist_ok=True)
    shutil.copy(patch, f"{dst}/patch.diff")
    for f in files: shutil.copy(os.path.join(SRC, f), f"{dst}/{os.path.basename(f)}")
    if os.path.exists(f"{OUT}/notes.md"): shutil.copy(f"{OUT}/notes.md", f"{dst}/notes.md")
    meta = {"id": NAME, "breaks_property": ID[:3], "touched_files": touched, "demo_files": {os.path.basename(f): f for f in files},
            "needs_to_manifest": "see notes.md (written by the independent sub-agent that produced the change)",
            "confirmed": {"build": "go build ./... ok", "suite": f"all {len(base)} baseline-stable tests pass with the change", "demo_cmd": cmd,
                          "demo_with_change": "FAIL (exit %d)" % w.returncode, "demo_without_change": "PASS"},
            "detected_by": []}
    json.dump(meta, open(f"{dst}/meta.json", "w"), indent=1)
    print(f"CONFIRMED {NAME}: touched={touched} demo={files}")
finally:
    sh(f"git -C /repo worktree remove --force {WT}"); shutil.rmtree(WT, ignore_errors=True)
