#!/bin/bash
# usage: seedmatrix.sh [seed-id ...]   applies each seeded change to /repo, runs the quick check of the property it
# targets (plus the checks listed in seeded/<id>/also, if any), reverts, and records the outcome in
# seeded/<id>/detected.txt. Nothing is ever committed to /repo.
cd /verif
IDS=("$@"); [ ${#IDS[@]} -eq 0 ] && IDS=($(ls seeded))
for sid in "${IDS[@]}"; do
  P=/verif/seeded/$sid/patch.diff
  prop=$(python3 -c "import json;print(json.load(open('/verif/seeded/$sid/meta.json'))['breaks_property'])")
  checks="$prop"; [ -f seeded/$sid/also ] && checks="$checks $(cat seeded/$sid/also)"
  if ! git -C /repo apply --check "$P" 2>/dev/null; then echo "$sid: PATCH DOES NOT APPLY"; continue; fi
  git -C /repo apply "$P"
  : > seeded/$sid/detected.txt
  for c in $checks; do
    out=$(bin/check $c --tier quick 2>&1); rc=$?
    sigs=$(echo "$out" | grep "^violation sig=" | sed 's/ (.*//' | sort -u | tr '\n' ' ')
    echo "$sid vs $c: exit=$rc $sigs" | tee -a seeded/$sid/detected.txt
  done
  git -C /repo checkout -- .
done
git -C /repo status --short
