#!/usr/bin/env python3
"""Regenerates /verif/MANIFEST.json from the table below (single source of truth for the interface file)."""
import json, os, sys
ROOT = os.path.dirname(os.path.dirname(os.path.abspath(__file__)))

LEVEL_NOTE_COMMON = ("Trusted base: the harness (mc explorer, world builder, oracles) and go-ethereum's state.StateDB; "
                     "the WASM Aspect runtime is replaced by a scripted stub runner at aspect-core/djpm/run (build overlay), "
                     "djpm.runAspect and all of /repo are the real code, rebuilt from /repo's working tree on every run.")

CHECKS = {
 "C01": dict(cat="model_checking", ref="DESIGN.md §4 C01",
   text="Bounded exhaustive exploration on the implementation: every case of the instruction matrix, SEQ-L, BYTES-n, entry-point and extra-EIP families on the 12 forks Frontier..Shanghai is executed on /repo's vm in 4 configurations and on the unmodified go-ethereum v1.12.0 interpreter (reference model in the implementation language); return data, failure class, leftover gas, created address, logs, refund, self-destructs and the digest of every mutated account/slot must be equal.",
   tech="stateless bounded-exhaustive enumeration (operand-deviation-bounded + complete sequence/byte enumeration) of executions on the real code vs reference implementation",
   note="Coverage statement is relative to the declared alphabets/bounds (evidence.bounds)."),
 "C02": dict(cat="model_checking", ref="DESIGN.md §4 C02",
   text="Bounded exhaustive exploration on the implementation: C01's program families x warm/cold access lists x gas limits (every step boundary of the ample-gas run -1/0/+1 at all depths, their 64/63 images, complete ranges for cheap programs) executed on /repo's vm and on go-ethereum v1.12.0 with equivalent recording debug tracers; the per-step (pc, op, gas, cost, depth, refund, error) sequences, per-frame gas handed in/used, leftover, refund and result must be equal in every execution.",
   tech="stateless bounded-exhaustive enumeration of (program, gas limit) executions on the real code, step-by-step differential comparison with the reference implementation",
   note="Coverage is relative to the declared program alphabets and the sweep rule (evidence.bounds)."),
 "C03": dict(cat="model_checking", ref="DESIGN.md §4 C03",
   text="Bounded exhaustive exploration on the implementation under crash monitors: all byte strings of length <=2 as code, the journal-opcode operand x memory x storage-encoding boundary product (<=k deviations from well-formed), and the Artela-precompile target x reach x payload-length x ABI-word x host-answer product, each run in memory-limited worker processes under recover() with a state-read sentinel; after every return the same EVM must be at rest (depth 0, call-tree cursor nil, static flag clear, follow-up call announced as a depth-0 start).",
   tech="stateless bounded-exhaustive enumeration of inputs (boundary alphabets, deviation-bounded) executed on the real code with crash/fatal-error attribution and a post-condition on the same instance",
   note="Worker deaths (fatal errors) are attributed to the case in flight and reported as violations; the one open finding (unbounded VRJNAL loop) is cut off by the sentinel and listed in known_findings.txt."),
 "C14": dict(cat="model_checking", ref="DESIGN.md §4 C14",
   text="Bounded exhaustive exploration on the implementation: precompile target x 12 reaches (4 call kinds from depth 1 and 2, 4 host entry points) x forks around Berlin x 20 payload lengths x ABI head/length words from a boundary alphabet (<=k deviations from a well-formed layout) x host answers x gas around the fee, plus every ordered pair of reaches as a two-call history (same EVM / fresh EVMs, distinct callers); recording host callbacks are compared with a reference ABI decoder over unbounded integers, and fee, pass-through, rejection and attribution rules are checked on every execution.",
   tech="stateless bounded-exhaustive enumeration of inputs and two-step call histories executed on the real code, judged against a reference decoder (model in the implementation language)",
   note="Short-payload leniency of the three precompiles is a known finding (known_findings.txt), every other deviation is reported."),
 "C09": dict(cat="model_checking", ref="DESIGN.md §4 C09",
   text="Complete enumeration on the implementation: storage words x every (offset, width) in ([0,34] + 4 large boundaries)^2 x 7 slot numbers, and every string length 0..130 x 4 content patterns x slots plus invalid head words, journaled by generated programs run directly, statically, through DELEGATECALL/CALLCODE (code account holding complemented words) and right after an SSTORE; the recorded bytes, read back by name and by slot, must equal a reference Solidity storage-layout decoder applied to the executing contract's storage at the journal step; invalid operands/encodings must fail the frame and record nothing.",
   tech="bounded exhaustive enumeration of inputs executed on the real code, compared with a reference decoder (model in the implementation language)",
   note="Strings above 130 bytes and words outside the alphabet are not covered."),
 "C12": dict(cat="model_checking", ref="DESIGN.md §4 C12",
   text="Bounded exhaustive exploration on the implementation: every base program of length <= L over a 28-macro interacting alphabet, one journal instruction (13 well-formed and 20 malformed operand sets over the 8 opcodes) inserted at every position, on all 13 fork configurations, in normal and static frames; the program and its pop-variant are executed with full-data debug tracers and every subsequent event (stack, memory, pc, return data, refund), logs, state delta and results must be equal with gas shifted by one constant non-zero fee; malformed operands must halt the frame with all gas consumed and no effects.",
   tech="stateless bounded-exhaustive enumeration of program pairs executed on the real code, differential trace comparison (the pop-variant is the reference)",
   note="Well-formedness is re-evaluated in the live state at the journal step, so base programs that overwrite the journaled head word are judged as malformed cases."),
 "C15": dict(cat="model_checking", ref="DESIGN.md §4 C15",
   text="Bounded exhaustive exploration on the implementation: (a) every call tree with <= B actions over {TSTORE, TLOAD, CALL/DELEGATECALL/STATICCALL into a child} with nesting <= 3 and terminators {STOP, REVERT, INVALID}, normal and static entry, with and without a second transaction after Prepare, executed under /repo's Cancun rules and compared event by event (stack, gas, errors) with go-ethereum v1.12.0 running EIP-1153 on Shanghai rules; (b) the full product of MCOPY (dst, src, len) over a 16-value boundary alphabet x memory pre-sizes x gas limits around the consumption, judged against an EIP-5656 model (memmove, expansion to cover both ranges, copy + expansion gas, out-of-range => out of gas); (c) bytes 0x5c/0x5d/0x5e invalid on all 12 forks before Cancun.",
   tech="stateless bounded-exhaustive enumeration of programs/operands executed on the real code vs reference implementation (EIP-1153) and reference model (EIP-5656)",
   note="Upstream assigns EIP-1153 the bytes 0xb3/0xb4; traces are compared after renaming the two opcode bytes."),
 "C11": dict(cat="model_checking", ref="DESIGN.md §4 C11",
   text="Explicit-state breadth-first search on the implementation: all histories up to the depth bound over ~90 concrete recorder operations (register top-level / nested, journal change, enter call, exit call over 2 accounts, shared slots, offsets in and out of range, 2 type ids, colliding names), successor = replay on a fresh recorder + one operation, visited set keyed by the canonical dump of the recorder's private maps plus the model state; every transition is checked against a two-map reference model (acceptance/refusal, unchanged dump on refusal and on repeated registration, same record by name path and by (slot, offset, type), journal visible last under the current call in both views, child index sets, stability of every earlier registration).",
   tech="explicit-state BFS over operation histories of the real object with state hashing on its private state, transition-wise comparison with a reference model in the implementation language",
   note="Histories are not expanded beyond the first conflicting registration; its immediate symptoms are the two known-finding signatures, everything else (including any effect on earlier registrations) is reported."),
 "C20": dict(cat="model_checking", ref="DESIGN.md §4 C20",
   text="Bounded exhaustive exploration on the implementation under per-instruction work monitors: the standard instruction matrix (calibration), the journal-opcode operand x memory x storage product, key-journal instructions over 1 KiB..1 MiB of paid memory, reference journals over strings of 31..2^63 bytes, and CALLs into every precompile (1-9, 0x64-0x66) with sizes up to 1 MiB, modexp length triples up to 2^32 and blake2f round counts up to 2^32-1; for every executed instruction the state reads, heap bytes allocated and bytes retained by the recorder between its step callback and the next are compared with fixed multiples of the gas it consumed; unbounded loops are cut by a state-read sentinel and worker deaths are attributed to the case in flight.",
   tech="stateless bounded-exhaustive enumeration of inputs executed on the real code with per-instruction resource monitors (counting StateDB, runtime allocation counter, recorder retention) and fixed per-gas bounds",
   note="Allocation accounting is span-granular for small objects (64 KiB base allowance); verdicts are re-measured three times before being reported. Open findings: flat-fee reference/key journals (known_findings.txt)."),
 "C04": dict(cat="fault_enumeration", ref="DESIGN.md §4 C04",
   text="Fault enumeration on the implementation: every scenario call tree within the depth bound (frames with pre/post effects SSTORE/LOG, every call kind with values 0/1/more-than-balance into child frames, a precompile or a code-less account, 7 terminators) on the listed forks with Aspects bound to every contract; at every Aspect execution the scripted runtime answers ok / out of gas / revert / other failure / provider failure / ok-burning-all-gas, all answer vectors with at most k non-default answers; after each execution the storage of every contract, success flags and return-data sizes seen by callers, balances, nonces, code, self-destructs and logs are compared with a reference interpreter of the scenario AST in which a failed frame and its descendants contribute nothing.",
   tech="stateless exhaustive enumeration of scenario trees x fault (answer) vectors up to a deviation bound, executed on the real EVM + real djpm.runAspect with a scripted stub runner; comparison with a reference interpreter of the scenario language",
   note="The WASM runtime is outside the explored system (stub at run.Runner)."),
 "C05": dict(cat="fault_enumeration", ref="DESIGN.md §4 C05",
   text="Fault enumeration on the implementation: scenario call trees (depth 2 full alphabet, depth 3 chains) x every subset of contracts with Aspects bound x 1-2 Aspects per join point x calldata lengths {0,1,4,32,33} x values x the join-point switch toggled between consecutive top-level calls on one EVM x answer vectors with <= k non-default answers; the observed sequence of Aspect executions (join point, contract, aspect order, request fields From/To/Data/Value/Index, return data and error for post) must equal the sequence the scenario denotes and every execution must lie at the right place between the debug tracer's frame and step events.",
   tech="stateless exhaustive enumeration of scenario trees x configurations x fault vectors up to a deviation bound, executed on the real EVM + real djpm.runAspect with a scripted stub runner; comparison with a reference interpreter of the scenario language",
   note="Message call is read as the CALL kind (EVM.Call), the only instrumented path."),
 "C06": dict(cat="fault_enumeration", ref="DESIGN.md §4 C06",
   text="Fault enumeration on the implementation: scenario call trees with Aspects bound everywhere x 1-2 Aspects x answer vectors over {burn 0/1/100/all, out of gas, revert, other failure, provider failure} with <= k deviations; for every call the gas before the callee's first instruction, the gas the caller gets back (computed from the caller's own step gas around the call), the recorded leftovers and the Aspect exit events are checked against what the join points left; out-of-gas must surface as the identical vm.ErrOutOfGas with nothing returned; a differential run without burns checks conservation.",
   tech="stateless exhaustive enumeration of scenario trees x fault vectors up to a deviation bound, executed on the real EVM + real djpm.runAspect with a scripted stub runner; comparison with a reference interpreter of the scenario language and with the burn-free execution",
   note="Leftover after non-out-of-gas pre failures and Aspect reverts is not determined by the statement and only bounded by the supplied gas. Auxiliary: each worker also runs a shard of the real-runtime conformance (build/vcheck-real, no stub): the same scenario executions with hand-assembled WASM Aspects on the real aspect-runtime/wasmtime, judged by the oracles of C04-C08 and C13, which binds the stub's answer table to the runtime it replaces."),
 "C07": dict(cat="model_checking", ref="DESIGN.md §4 C07",
   text="Bounded exhaustive exploration on the implementation: scenario call trees with failures at every position (terminators, refusals, static faults, injected join-point failures) x sequences of 1 and 3 top-level invocations on one EVM, plus self-recursion to the 1024 depth limit; after the last return the call tree is inspected through its public API only: dense indices in entry order, FindCall consistent, one parent with a smaller index that lists the node once in increasing order, ParentOf/ChildrenOf consistent, Root is node 0, cursor nil.",
   tech="stateless exhaustive enumeration of scenario trees x fault vectors x invocation sequences, executed on the real EVM + real djpm.runAspect with a scripted stub runner; comparison with a reference interpreter of the scenario language (node count and parent relation)",
   note=""),
 "C08": dict(cat="model_checking", ref="DESIGN.md §4 C08",
   text="Bounded exhaustive exploration on the implementation: scenario call trees x memory-reuse patterns after each call x all failure kinds x join points on/off, plus the depth-limit recursion; every CALL/CREATE/CREATE2 attempt the scenario denotes (refused ones included) must be recorded once, in program order under the issuing frame, with caller, target, value and input as at the call, gas of the frame's enter event, and return data / error / leftover as handed back (debug-tracer exit events, entry-point results).",
   tech="stateless exhaustive enumeration of scenario trees x fault vectors, executed on the real EVM + real djpm.runAspect with a scripted stub runner; comparison with a reference interpreter of the scenario language and with a shadow recorder over debug-tracer events",
   note="Open finding: recorded calldata aliases the caller's memory (known_findings.txt)."),
 "C10": dict(cat="model_checking", ref="DESIGN.md §4 C10",
   text="Bounded exhaustive exploration on the implementation: scenario call trees with journal groups (register + store + journal; repeated; a,b,a) at every effect position of every frame, under all six call kinds, with frames that fail, with repeated top-level invocations and with join-point failures; for every account and variable the recorded map call-index -> value list must equal the attribution the scenario denotes (storage-context account, innermost CALL/CREATE node, immediate repeats collapsed, failed frames kept) and nothing may be filed elsewhere.",
   tech="stateless exhaustive enumeration of scenario trees x invocation sequences x fault vectors, executed on the real EVM + real djpm.runAspect with a scripted stub runner; comparison with a reference interpreter of the scenario language",
   note=""),
 "C13": dict(cat="model_checking", ref="DESIGN.md §4 C13",
   text="Bounded exhaustive exploration on the implementation: scenario call trees with transfers of 0 / 1 wei / more than the balance to child frames, precompiles, code-less accounts, newly created contracts and the calling contract itself, frames that later fail, 1-2 invocations, join-point failures; per account and call index the recorded balance journal must equal [sender before, recipient before, sender after, recipient after] (restricted to the account, immediate repeats collapsed) as computed by the reference interpreter, and no other entry may exist.",
   tech="stateless exhaustive enumeration of scenario trees x fault vectors, executed on the real EVM + real djpm.runAspect with a scripted stub runner; comparison with a reference interpreter of the scenario language",
   note=""),
 "C19": dict(cat="model_checking", ref="DESIGN.md §4 C19",
   text="Complete enumeration on the implementation: every sentence of the well-nested event-stream grammar (tx start/end, start/end, enter/exit of 5 frame kinds with 3 results, 0..3 Aspect executions per join point with 3 results and 0..2 calls issued from inside each, tx-level join points) within a frame budget and nesting <= 3 is fed directly to callTracer and flatCallTracer under all 8 configurations; the result must parse and equal the tree the stream denotes (every call once under its issuer, every Aspect execution with its own gas used, output and error; flat: frame count, subtraces == emitted children, distinct prefix-closed trace addresses). Conformance: depth-3 scenario chains run on the real EVM with each tracer attached behind a recording tee must emit sentences of that grammar and satisfy the same oracle.",
   tech="exhaustive enumeration of event-stream histories up to a bound executed on the real tracers, compared with a stack-machine reference model; grammar validated against streams emitted by the real EVM + djpm.runAspect",
   note="Under onlyTopCall only the top frame and its own Aspect executions are judged."),
 "C18": dict(cat="model_checking", ref="DESIGN.md §4 C18",
   text="Bounded exhaustive exploration on the implementation: C01's program families x gas limits sampled from the step boundaries of the ample-gas run, executed on /repo's vm and on go-ethereum v1.12.0 (i) with equivalent full-data recording debug tracers - every callback with copied stack, memory, return data, gas, cost, depth, refund and error text must be equal - and (iii) with each of 17 ported tracer configurations (struct logger variants, access-list, prestate +/- diff mode, 4byte, call, flat call, mux, noop) next to its upstream original, results compared byte for byte; (ii) scenario call trees with Aspects bound everywhere, failing join-point answers and repeated invocations: start/end, enter/exit and Aspect enter/exit balanced and nested, every instruction reported at the depth of the open frames.",
   tech="stateless bounded-exhaustive enumeration of (program, gas limit, tracer configuration) executions on the real code, differential comparison with the reference implementation and its tracers; fault enumeration for event-stream balance",
   note="Access lists are compared in canonical order (both implementations build them from Go maps)."),
 "C16": dict(cat="model_checking", ref="DESIGN.md §4 C16", engine="vcheck-map",
   text="Exhaustive enumeration on the implementation of (a) Go map-iteration start offsets - a build overlay of the runtime's map.go turns every `range` over a map executed by the code under test into an explorable choice; all executions with <= 1 non-zero offset during the EVM execution and <= 2 during every recorder query, canonical serialisation (lists in returned order) identical across all offset vectors; (b) transaction histories: every sequence up to length L over 13 transactions touching every package-level value, in one process, each on a fresh EVM and equal pre-state: exactly one serialisation per transaction across all contexts; (c) two live EVMs with two invocations each in all 6 interleavings: each EVM's views equal its solo views.",
   tech="exhaustive enumeration of runtime nondeterminism (map iteration offsets through a runtime seam), of operation histories up to a depth and of invocation interleavings, executed on the real code; comparison of canonical serialisations",
   note="Maps with more than 8 entries (more than one bucket) are outside the enumerated offsets."),
 "C17": dict(cat="model_checking", ref="DESIGN.md §4 C17",
   text="Stateless exploration of interleavings on the implementation: 2-3 real EVM instances, each on its own StateDB, run under a cooperative scheduler with scheduling points before EVM construction, before every instruction and at every frame / Aspect enter and exit; all schedules up to the preemption bound; every instance's canonical observation (result, full event stream with gas, host callbacks, call tree, journal dump) must equal its solo run. Cancel is issued from another goroutine after each of the first N scheduling points of three looping programs: no panic, prompt stop (bounded number of further instructions), bookkeeping closed. Auxiliary: the same bodies free-running on 16 goroutines under the Go race detector.",
   tech="stateless model checking of thread interleavings with a preemption bound (hand-written controlled scheduler over hooked operations), exhaustive enumeration of Cancel positions; separate free-running race-detector pass",
   note="The race pass is auxiliary (not exploration); preemption points are callback boundaries."),
}

NOT_YET = {}

def main():
    props = [json.loads(l) for l in open(os.path.join(ROOT, "properties.jsonl"))]
    ids = [p["id"] for p in props]
    checks = []
    for i in ids:
        if i not in CHECKS: continue
        c = CHECKS[i]
        checks.append({
            "property_id": i,
            "quick_cmd": f"bin/check {i} --tier quick",
            "thorough_cmd": f"bin/check {i} --tier thorough",
            "evidence_file": f"/verif/evidence/{i}.json",
            "replay_cmd_template": f"bin/check {i} --replay {{path}}",
            "engine": c.get("engine", "vcheck"),
            "level_claimed": {"category": c["cat"], "text": c["text"], "design_ref": c["ref"]},
            "level_note": c["note"] + " " + LEVEL_NOTE_COMMON,
            "technique": c["tech"],
        })
    na = [{"property_id": i, "reason": NOT_YET.get(i, "check not built yet in this round (planned: see DESIGN.md §4); not claimed until its machinery exists and passes on the unchanged tree")} for i in ids if i not in CHECKS]
    m = {
        "version": 1,
        "setup_cmd": "bin/setup.sh",
        "hooks": {
            "guard": "verif",
            "enable": "go build -tags verif -overlay build/overlay.json (bin/build.sh): the overlay ADDS /repo/vm/zz_verif_export.go (//go:build verif, kept in /verif/overlays; overlays/vm_export.go.txt, or its reflective fallback vm_export_min.go.txt when the primary no longer compiles against /repo's private recorder fields) and substitutes the dependency file aspect-core/djpm/run/runner.go by a scripted stub (not in build/vcheck-real, which links the real runner); build/vcheck-map additionally replaces the Go runtime's map.go by a copy with an iteration-start seam; no file exists under /repo",
            "baseline_off_cmd": "cd /repo && GOFLAGS=-mod=mod GOPROXY=off GOSUMDB=off GOTOOLCHAIN=local go test -json -vet=off -count=1 -timeout 25m ./...",
            "source_commits": [],
            "add_only": True,
        },
        "engines": [
            {"name": "vcheck-map", "path": "/verif/harness", "serves_properties": ["C16"],
             "kind_free_text": "the same harness built with a build overlay that replaces the Go runtime's map.go by a copy whose mapiterinit takes its start position from a harness hook (overlays/mk_runtime_map.py)"},
            {"name": "vcheck", "path": "/verif/harness", "serves_properties": [c["property_id"] for c in checks if c["property_id"] != "C16"],
             "kind_free_text": "hand-written Go model-checking harness: mc.Explore (stateless DFS over choice vectors with deviation bound), mc.BFS (explicit-state search by history replay), mc.Sched (cooperative scheduler); worlds for /repo's vm and upstream go-ethereum v1.12.0; master/worker sharding"},
        ],
        "checks": checks,
        "not_applicable": na,
        "notes": "All checks rebuild the harness against /repo's current working tree (go.mod replace => /repo). Known genuine defects are listed in /verif/known_findings.txt.",
    }
    json.dump(m, open(os.path.join(ROOT, "MANIFEST.json"), "w"), indent=1)
    print("wrote MANIFEST.json with", len(checks), "checks;", len(na), "not_applicable")

if __name__ == "__main__":
    main()
