#!/opt/veriftools/pyvenv/bin/python
"""Validates MANIFEST.json and every evidence file against the schemas in /root/.vp."""
import json, jsonschema, glob, sys
ok = True
def v(path, schema):
    global ok
    try:
        jsonschema.validate(json.load(open(path)), json.load(open(schema))); print("ok  ", path)
    except Exception as e:
        ok = False; print("FAIL", path, str(e)[:300])
v('/verif/MANIFEST.json', '/root/.vp/MANIFEST.schema.json')
for f in sorted(glob.glob('/verif/evidence/*.json')): v(f, '/root/.vp/EVIDENCE.schema.json')
sys.exit(0 if ok else 1)
