#!/bin/bash
# usage: seedpar.sh [-j N] <seed-id> ...   like seedmatrix.sh, but never touches /repo: every seed gets a scratch
# worktree of /repo with its patch applied and a scratch copy of /verif (sources only) under /tmp/sp/<id>, the quick
# check of the property it targets (plus seeded/<id>/also) runs there with REPO_ROOT pointing at the worktree and a
# budget large enough to finish the quick enumeration on a shared machine; the outcome goes to
# seeded/<id>/detected.txt. Scratch copies and worktrees are removed afterwards.
J=3; if [ "$1" = "-j" ]; then J=$2; shift 2; fi
one() {
  sid=$1; S=/tmp/sp/$sid
  prop=$(python3 -c "import json;print(json.load(open('/verif/seeded/$sid/meta.json'))['breaks_property'])")
  checks="$prop"; [ -f /verif/seeded/$sid/also ] && checks="$checks $(cat /verif/seeded/$sid/also)"
  git -C /repo worktree remove --force $S/repo >/dev/null 2>&1; rm -rf $S; mkdir -p $S
  git -C /repo worktree add -q --detach $S/repo HEAD || { echo "$sid: worktree failed"; return; }
  if ! git -C $S/repo apply /verif/seeded/$sid/patch.diff; then echo "$sid: PATCH DOES NOT APPLY"; else
    rsync -a --exclude .git --exclude build --exclude evidence --exclude replays --exclude seeded /verif/ $S/verif/
    : > /verif/seeded/$sid/detected.txt
    for c in $checks; do
      out=$(REPO_ROOT=$S/repo VERIF_ROOT=$S/verif $S/verif/bin/check $c --tier quick -budget ${SEED_BUDGET:-12m} 2>&1); rc=$?
      echo "$out" > $S/out-$c.txt; cp $S/out-$c.txt /tmp/sp/last-$sid-$c.txt
      sigs=$(echo "$out" | grep "^violation sig=" | sed 's/ (.*//' | sort -u | tr '\n' ' ')
      echo "$sid vs $c: exit=$rc $sigs" | tee -a /verif/seeded/$sid/detected.txt
    done
  fi
  git -C /repo worktree remove --force $S/repo >/dev/null 2>&1; rm -rf $S
}
export -f one
mkdir -p /tmp/sp
printf '%s\n' "$@" | xargs -P $J -I{} bash -c 'one {}'
git -C /repo worktree prune
